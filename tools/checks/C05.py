"""C05 -- fermionic signs are consistent and order-independent.
proof: Fermi/Fermi.v, FermiLaws.v, CanonOrder.v; tie: exact correspondence of the per-block negation pattern of swap_gate (both forms) and of
sign_canonical_order with the model; search/oracle: swap_gate vs independent dense parity signs (tgen), ALL contraction orders of generated
fermionic networks with swaps on open and contracted legs must agree with each other and with a dense reference, fkron vs explicit Jordan-Wigner
matrices for all site permutations and application orders."""
import json, itertools, random
import numpy as np
import vlib, tcheck

PROP_V = 'properties/C05.v'
OP_SWAP, OP_SWAPC, OP_CANON = 60, 61, 62


def fss_list(cfg):
    n = cfg.sym.NSYM
    f = cfg.fermionic
    if f is True:
        return [1] * n
    if f is False:
        return [0] * n
    return [1 if x else 0 for x in f]


def swap_correspondence(ctx, st, quick):
    import yastn, tgen
    rng = ctx.rng
    jobs, src = [], []
    n = 500 if quick else 8000
    for k in range(n):
        sym = rng.choice(['Z2', 'U1', 'U1xU1', 'U1xU1xZ2', 'Z2xU1'])
        ferm = rng.choice(tgen.FERMIONIC_OK[sym])
        cfg = tgen.make_cfg(sym, ferm, rng.choice(tgen.POLICIES))
        r = rng.randint(2, 5)
        legs = [tgen.rleg(rng, cfg, sym, maxD=2) for _ in range(r)]
        a = tgen.rtensor(rng, cfg, legs, n=tgen.allowed_charge(rng, cfg, sym, legs), lo=1, hi=3) if False else tgen.rtensor(rng, cfg, legs, n=tgen.allowed_charge(rng, cfg, sym, legs))
        a._data = np.abs(a._data) + 1.0        # no zero entries: the sign of every block is observable
        a, perm = tgen.lazy(rng, a)
        nsym = cfg.sym.NSYM
        keys = [[list(t[i * nsym:(i + 1) * nsym]) for i in range(r)] for t in a.struct.t]     # native order
        idx = list(range(r)); rng.shuffle(idx)
        if rng.random() < 0.6:
            npairs = rng.randint(1, 2)
            groups = []
            pool = idx[:]
            for _ in range(2 * npairs):
                if not pool:
                    pool = idx[:]
                g = [pool.pop() for _ in range(min(len(pool), rng.randint(1, 2)))]
                groups.append(tuple(g))
            axes = tuple(g if len(g) > 1 or rng.random() < 0.5 else g[0] for g in groups)
            try:
                b = a.swap_gate(axes=axes)
            except yastn.YastnError:
                continue
            nat = [[a.trans[x] for x in g] for g in groups]
            pairs = [[nat[2 * i], nat[2 * i + 1]] for i in range(npairs)]
            jobs.append((OP_SWAP, [nsym, fss_list(cfg), keys, pairs]))
            desc = dict(kind='swap_gate', sym=sym, fermionic=repr(ferm), axes=repr(axes), trans=a.trans)
        else:
            g = idx[:rng.randint(1, r)]
            ch = [list(tgen.rcharge(rng, sym)) for _ in g] if rng.random() < 0.5 else None
            single = list(tgen.rcharge(rng, sym))
            try:
                b = a.swap_gate(axes=tuple(g), charge=tuple(tuple(c) for c in ch) if ch else tuple(single))
            except yastn.YastnError:
                continue
            jobs.append((OP_SWAPC, [nsym, fss_list(cfg), keys, [a.trans[x] for x in g], ch if ch else [single] * len(g)]))
            desc = dict(kind='swap_gate_charge', sym=sym, fermionic=repr(ferm), axes=g, charge=ch or single, trans=a.trans)
        # implementation's parity per block: sign of (b / a) on the stored data
        impl = []
        for sl in a.slices:
            s0, s1 = sl.slcs[0]
            ratio = b._data[s0:s1] / a._data[s0:s1]
            impl.append(1 if np.all(ratio == -1) else (0 if np.all(ratio == 1) else 9))
        src.append((desc, impl))
        ctx.case(desc, nontrivial=len(keys) > 0)
        ctx.count('swap:%s' % desc['kind'])
    bad = []
    if st['model_ok'] and jobs:
        mo = vlib.run_model(jobs)
        for (desc, impl), m in zip(src, mo):
            if m != impl:
                bad.append(dict(desc=desc, model=m, impl=impl))
    return bad, jobs, src


def canon_correspondence(ctx, st, quick):
    import yastn, tgen
    from yastn.tensor._auxiliary import sign_canonical_order as _sco
    rng = ctx.rng
    jobs, src = [], []
    for k in range(400 if quick else 6000):
        sym = rng.choice(['Z2', 'U1', 'U1xU1', 'U1xU1xZ2', 'Z2xU1'])
        ferm = rng.choice(tgen.FERMIONIC_OK[sym])
        cfg = tgen.make_cfg(sym, ferm)
        L = rng.randint(0, 6)
        sites = [rng.randint(0, 3) for _ in range(L)]
        ops_ = []
        for _ in range(L):
            n = tgen.rcharge(rng, sym, wide=True)
            ops_.append(yastn.Tensor(config=cfg, s=(1, -1), n=n))
        sgn = _sco(*ops_, sites=sites, f_ordered=lambda a, b: a <= b)
        jobs.append((OP_CANON, [fss_list(cfg), sites, [list(o.n) for o in ops_]]))
        src.append((dict(kind='sign_canonical_order', sym=sym, fermionic=repr(ferm), sites=sites, charges=[list(o.n) for o in ops_]), int(sgn)))
        ctx.case(src[-1][0], nontrivial=L >= 2)
        # direct oracle: inversion parity
        e = 0
        fl = fss_list(cfg)
        for i in range(L):
            for j in range(i + 1, L):
                if sites[i] > sites[j]:
                    e += sum(x * y for x, y, f in zip(ops_[i].n, ops_[j].n, fl) if f)
        if int(sgn) != 1 - 2 * (e % 2):
            ctx.violation('sign_canonical_order(%r, charges %r) = %d, inversion parity gives %d' % (sites, [o.n for o in ops_], sgn, 1 - 2 * (e % 2)), src[-1][0])
    bad = []
    if st['model_ok'] and jobs:
        mo = vlib.run_model(jobs)
        for (desc, impl), m in zip(src, mo):
            if m != impl:
                bad.append(dict(desc=desc, model=m, impl=impl))
    return bad, jobs, src


def _partial_multiline(inds, swap):
    """does some swap cross only a strict subset of the lines that join one pair of tensors (the documented trigger of the known finding)?"""
    where = {}
    for k, ii in enumerate(inds):
        for i in ii:
            if i > 0:
                where.setdefault(i, []).append(k)
    groups = {}
    for i, ks in where.items():
        if len(set(ks)) == 2:
            groups.setdefault(tuple(sorted(set(ks))), set()).add(i)
    for g in groups.values():
        if len(g) >= 2:
            partners = {}
            for x, y in swap:
                for a_, b_ in ((x, y), (y, x)):
                    if a_ in g:
                        partners.setdefault(b_, set()).add(a_)
            if any(0 < len(v) < len(g) for v in partners.values()):
                return True
    return False


def ncon_orders(ctx, quick):
    """every contraction order of small fermionic networks with swap gates gives one and the same tensor"""
    import yastn, tgen
    rng = ctx.rng
    nets = [
        # (inds, candidate swap pairs)
        ([[1, -0], [1, 2], [2, -1, -2]], [(1, -1), (2, -0), (1, -2), (-0, -1), (1, 2), (-1, -2)]),
        ([[1, 2, -0], [2, 3, -1], [3, 1, -2]], [(1, -1), (2, -2), (3, -0), (1, 2), (-0, -2), (2, 3)]),
        ([[-0, 1], [1, 2, 3], [2, -1], [3, -2]], [(1, -1), (2, -2), (3, -1), (2, 3), (1, -2), (-0, -2)]),
        ([[1, 2], [2, 3, -0], [3, 1, -1]], [(1, -0), (2, -1), (3, -0), (1, 3)]),
        # traces inside one tensor, swaps on legs before, between and behind the traced pair
        ([[1, 2, 1, -0, -1], [2, -2, -3]], [(-0, -3), (-1, -2), (2, -0), (-0, -1), (2, -3)]),
        ([[1, -0, 1, 2, -1], [2, 3, -2], [3, -3]], [(-1, -2), (-0, -3), (2, -1), (3, -0), (-1, -3)]),
        ([[-0, 1, 1, -1, 2], [2, -2]], [(-1, -2), (-0, -2), (2, -1), (-0, -1)]),
        # a swap that crosses only one of two lines contracted together; swaps with a traced line
        ([[-0, 1, 2], [2, 1], [-1, -2]], [(2, -2), (1, -1), (1, -2), (-0, -1)]),
        ([[2, 1], [3, -0, 4], [1, -1, 2], [3, -2, 4]], [(-2, 1), (3, -1), (-0, -1), (4, 2)]),
        ([[1, 1, -0], [-1, -2]], [(1, -1), (1, -2), (-0, -1)]),
    ]
    nrep = 700 if quick else 8000
    for rep in range(nrep):
        sym = rng.choice(['Z2', 'U1', 'U1xU1', 'U1xU1xZ2'])
        ferm = rng.choice([f for f in tgen.FERMIONIC_OK[sym] if f is not False])
        cfg = tgen.make_cfg(sym, ferm, rng.choice(tgen.POLICIES))
        inds, cand = rng.choice(nets)
        labels = sorted({i for ii in inds for i in ii if i > 0})
        lab_leg = {}
        for ii in inds:
            for i in ii:
                if i not in lab_leg:
                    lab_leg[i] = tgen.rleg(rng, cfg, sym, maxD=2)
        ts = []
        seen = set()
        ok = True
        for ii in inds:
            lg = []
            for i in ii:
                l = lab_leg[i]
                if i > 0 and i in seen:
                    l = l.conj()
                seen.add(i)
                lg.append(l)
            try:
                nch = tgen.allowed_charge(rng, cfg, sym, lg)
                if rng.random() < 0.5:
                    # a charge that is odd in a fermionic component (also with an even component sum), if it admits blocks
                    cand_n = [tuple(c) for c in itertools.product(*[range(-1, 2) if m is None else range(m) for m in tgen.MODULI[sym]])]
                    rng.shuffle(cand_n)
                    for c in cand_n[:6]:
                        tt = yastn.zeros(cfg, legs=lg, n=c)
                        if tt.size > 0 and any(x % 2 for x, f in zip(c, fss_list(cfg)) if f):
                            nch = c
                            break
                t = tgen.rtensor(rng, cfg, lg, n=nch)
            except yastn.YastnError:
                ok = False
                break
            ts.append(t)
        if not ok or any(t.size == 0 for t in ts):
            continue
        swap = rng.sample(cand, rng.randint(1, min(3, len(cand))))
        results = {}
        first_ok = None
        for order in itertools.permutations(labels):
            try:
                r = yastn.ncon(ts, inds, order=order, swap=swap)
                results[order] = ('ok', tgen.obs(r))
                first_ok = first_ok if first_ok is not None else r
            except yastn.YastnError as e:
                results[order] = ('YastnError', str(e)[:80])
            except AssertionError as e:
                results[order] = ('AssertionError', str(e)[:80])
        ctx.count('ncon_networks')
        ctx.count('ncon_orders', len(results))
        oks = {o: v for o, v in results.items() if v[0] == 'ok'}
        for o, v in results.items():
            if v[0] != 'ok':
                ctx.count('ncon_order_rejected:' + v[0])
        desc = dict(kind='ncon-orders', sym=sym, fermionic=repr(ferm), inds=inds, swap=swap, parities=[t.n for t in ts], rep=rep, seed=ctx.seed)
        ctx.case(desc, nontrivial=len(oks) > 1)
        traced = {i for ii in inds for i in ii if i > 0 and ii.count(i) == 2}
        on_traced = any(x in traced or y in traced for x, y in swap)
        if any(v[0] == 'AssertionError' for v in results.values()):
            ctx.violation('ncon with swaps %r on network %r (sym %s, fermionic %r, tensor charges %r) fails an internal sanity check (AssertionError: %s) for %d of %d contraction orders' % (
                swap, inds, sym, ferm, [t.n for t in ts], next(v[1] for v in results.values() if v[0] == 'AssertionError'), sum(1 for v in results.values() if v[0] == 'AssertionError'), len(results)),
                dict(desc, what='assertion'), family='ncon-bad-swap-assertion' if _partial_multiline(inds, swap) else None)
        # ground truth: outer product of all tensors, swap gates between one end of each of the two lines, then all traces
        if first_ok is not None:
            try:
                big = ts[0]
                for t in ts[1:]:
                    big = yastn.tensordot(big, t, axes=((), ()))
                flat = [i for ii in inds for i in ii]
                for x, y in swap:
                    big = big.swap_gate(axes=(flat.index(x), flat.index(y)))
                pairs_ = [(flat.index(i), len(flat) - 1 - flat[::-1].index(i)) for i in sorted({i for i in flat if i > 0})]
                if pairs_:
                    big = big.trace(axes=(tuple(p for p, _ in pairs_), tuple(q for _, q in pairs_)))
                rest = [i for k, i in enumerate(flat) if i <= 0]
                ref = big.transpose(tuple(sorted(range(len(rest)), key=lambda k: -rest[k]))) if len(rest) > 1 else big
                lgu = {k: yastn.legs_union(ref.get_legs(k), first_ok.get_legs(k)) for k in range(ref.ndim)}
                same = tuple(ref.n) == tuple(first_ok.n) and np.array_equal(ref.to_numpy(legs=lgu), first_ok.to_numpy(legs=lgu))
                ctx.count('ncon_vs_explicit')
                if not same:
                    ctx.violation('ncon with swaps %r on network %r (sym %s, fermionic %r, tensor charges %r) differs from the explicit evaluation (outer product, swap_gate, trace)%s' % (
                        swap, inds, sym, ferm, [t.n for t in ts], ' -- a swap involves a traced line' if on_traced else ''), dict(desc, what='explicit'),
                        family='ncon-traced-line-swap' if on_traced else None)
            except yastn.YastnError as e:
                ctx.count('ncon_vs_explicit:reference-failed')
        # the same network with every tensor presented in another leg order (labels moved along): one and the same tensor
        if oks and not on_traced:
            o0 = next(iter(oks))
            for variant in range(2):
                perms = []
                for t in ts:
                    pp = list(range(t.ndim)); rng.shuffle(pp); perms.append(pp)
                ts2 = [t.transpose(tuple(pp)) for t, pp in zip(ts, perms)]
                if variant:
                    ts2 = [t.consume_transpose() for t in ts2]
                inds2 = [[ii[k] for k in pp] for ii, pp in zip(inds, perms)]
                try:
                    r2 = ('ok', tgen.obs(yastn.ncon(ts2, inds2, order=o0, swap=swap)))
                except (yastn.YastnError, AssertionError) as e:
                    r2 = (type(e).__name__, str(e)[:80])
                ctx.count('ncon_relabelled')
                if r2 != oks[o0]:
                    ctx.violation('ncon with swaps %r on network %r (sym %s, fermionic %r, tensor charges %r) changes when the tensors are given with their legs permuted %r '
                                  '(labels moved along): %r vs %r' % (swap, inds, sym, ferm, [t.n for t in ts], perms, str(oks[o0])[:120], str(r2)[:120]),
                                  dict(desc, perms=perms, variant=variant))
                    break
        # a swap listed twice (in either orientation of the pair) cancels: the result is that of the list without the two entries, in every order
        if oks:
            import random as _random
            lr = _random.Random(rep * 7919 + ctx.seed)
            px, py = lr.choice(cand)
            dup = [(px, py), (py, px) if lr.random() < 0.5 else (px, py)]
            swap2 = list(swap)
            for d_ in dup:
                swap2.insert(lr.randint(0, len(swap2)), d_)
            for o in lr.sample(sorted(oks), min(4, len(oks))):
                try:
                    r2 = ('ok', tgen.obs(yastn.ncon(ts, inds, order=o, swap=swap2)))
                except (yastn.YastnError, AssertionError) as e:
                    r2 = (type(e).__name__, str(e)[:80])
                ctx.count('ncon_swap_listed_twice')
                if r2 != oks[o]:
                    ctx.violation('ncon on network %r (sym %s, fermionic %r, tensor charges %r, order %r): swaps %r give %s, but %r -- the same list with the pair %r entered twice -- gives %s' % (
                        inds, sym, ferm, [t.n for t in ts], o, swap, str(oks[o])[:100], swap2, (px, py), str(r2)[:100]), dict(desc, what='listed-twice', swap2=swap2, order=list(o)))
                    break
        vals = set(v[1] for v in oks.values())
        if len(vals) > 1:
            o1 = next(iter(oks))
            o2 = next(o for o in oks if oks[o][1] != oks[o1][1])
            desc.update(order_a=o1, order_b=o2)
            ctx.violation('ncon with swaps %r on network %r (sym %s, fermionic %r, tensor charges %r) depends on the contraction order: %r vs %r' % (
                swap, inds, sym, ferm, [t.n for t in ts], o1, o2), desc)


def jw_matrices(ops, op_list, sites, cfg):
    """explicit Jordan-Wigner dense matrices for operators at sites 0..n-1 (site 0 first in the fermionic order)"""
    n = len(op_list)
    sp = ops.space()
    d = sum(sp.D)
    state_t = []
    for t, D in zip(sp.t, sp.D):
        state_t += [t] * D
    fl = fss_list(cfg)

    def P(nop):
        return np.diag([1 - 2 * (sum(x * y for x, y, f in zip(t, nop, fl) if f) % 2) for t in state_t]).astype(float)
    mats = []
    for op, s in zip(op_list, sites):
        m = op.to_numpy(legs={0: sp, 1: sp.conj()})
        fac = [P(op.n) if k < s else (m if k == s else np.eye(d)) for k in range(n)]
        M = fac[0]
        for f in fac[1:]:
            M = np.kron(M, f)
        mats.append(M)
    return mats, d


def fkron_vs_jw(ctx, quick):
    import yastn, tgen, mgen
    rng = ctx.rng
    fams = [('SpinlessFermions', 'Z2'), ('SpinlessFermions', 'U1'), ('SpinfulFermions', 'Z2'), ('SpinfulFermions', 'U1xU1'), ('SpinfulFermions', 'U1xU1xZ2'),
            ('Spin12', 'Z2')]
    nrep = 1500 if quick else 20000
    for rep in range(nrep):
        fam, sym = rng.choice(fams)
        ops = mgen.operators(fam, sym)
        cfg = ops.config
        if fam == 'SpinlessFermions':
            pool = [ops.c(), ops.cp(), ops.n(), ops.I()]
        elif fam == 'SpinfulFermions':
            pool = [ops.c('u'), ops.c('d'), ops.cp('u'), ops.cp('d'), ops.n('u'), ops.I(), ops.c('u') @ ops.c('d')]
        else:
            pool = [ops.sp(), ops.sm(), ops.z(), ops.I()]
        n = rng.choice([2, 2, 3, 3, 4]) if fam != 'SpinfulFermions' else rng.choice([2, 2, 3])
        op_list = [rng.choice(pool) for _ in range(n)]
        sites = list(range(n)); rng.shuffle(sites)
        ao = None
        if rng.random() < 0.6:
            ao = list(range(n)); rng.shuffle(ao)
        try:
            res = yastn.fkron(*op_list, sites=sites, application_order=ao)
        except yastn.YastnError as e:
            ctx.count('fkron:rejected')
            continue
        sp = ops.space()
        lg = {}
        for k in range(n):
            lg[2 * k] = sp
            lg[2 * k + 1] = sp.conj()
        dres = res.to_numpy(legs=lg)
        mats, d = jw_matrices(ops, op_list, sites, cfg)
        order = list(range(n)) if ao is None else ao[::-1]     # leftmost factor first; the operator applied first is rightmost
        if ao is None:
            order = list(range(n))
        M = np.eye(d ** n)
        for k in order:
            M = M @ mats[k]
        dmat = dres.transpose(list(range(0, 2 * n, 2)) + list(range(1, 2 * n, 2))).reshape(d ** n, d ** n)
        ctx.count('fkron:run')
        desc = dict(kind='fkron', family=fam, sym=sym, ops=[o.n for o in op_list], sites=sites, application_order=ao, rep=rep)
        ctx.case(desc, nontrivial=True)
        if not np.array_equal(dmat, M):
            ctx.violation('fkron(ops with charges %r, sites=%r, application_order=%r) [%s %s] differs from the Jordan-Wigner product (sign %s)' % (
                [o.n for o in op_list], sites, ao, fam, sym, 'flipped' if np.array_equal(dmat, -M) else 'and more'), desc)


def run(ctx):
    st = vlib.prepare(ctx, PROP_V)
    quick = ctx.tier == 'quick'
    import tgen
    ctx.cov['rule'] = ('swap_gate (pair form with arbitrary groupings, charge form) on tensors of Z2/U1/U1xU1/U1xU1xZ2/Z2xU1 with every fermionic flag form, odd and even '
                       'total parity, lazy transposes: per-block sign vs model and dense parity oracle; sign_canonical_order on site lists with repetitions; '
                       'fermionic networks of 3-4 tensors with 1-3 swap pairs on open and contracted legs: ALL contraction orders; fkron of c/c+/n/I (and '
                       'spinful variants) for all site permutations and application orders vs explicit Jordan-Wigner matrices. non-trivial = >=1 block / '
                       '>=2 operators; distinct by arguments')
    n = 300 if quick else 6000
    base = ctx.seed % 1000 * 100000
    recs = tcheck.run_jobs([('swap', s, {}, 'plain') for s in range(base, base + n)])
    for r in recs:
        ctx.case(dict(kind='swap-oracle', seed=r['seed'], describe=r['describe']), nontrivial=r['status'] == 'ok')
        ctx.count('swap-oracle:' + r['status'])
        if r['status'] in ('mismatch', 'crash', 'error'):
            ctx.violation('swap_gate case seed %d disagrees with the dense parity signs: %s' % (r['seed'], r['detail'][:300]),
                          dict(kind='swap', seed=r['seed'], opts=r['opts'], detail=r['detail'], describe=r['describe']))
    bad1, j1, s1 = swap_correspondence(ctx, st, quick)
    bad2, j2, s2 = canon_correspondence(ctx, st, quick)
    if st['model_ok']:
        sample = [(op, arg, impl) for ((op, arg), (_, impl)) in list(zip(j1, s1))[:60] + list(zip(j2, s2))[:60]]
        ok, idx, ns = vlib.coq_sample('C05', sample)
        ctx.extra['coq_vm_sample'] = dict(n=ns, mismatches=len(idx), ok=ok)
        if not ok and not (bad1 or bad2):
            ctx.broken.append('in-Coq vm_compute sample disagrees with the extracted driver/implementation at %r' % idx[:5])
    ctx.extra['correspondence'] = dict(swap_cases=len(j1), canon_cases=len(j2), disagreements=len(bad1) + len(bad2))
    ncon_orders(ctx, quick)
    fkron_vs_jw(ctx, quick)
    if (bad1 or bad2) and not ctx.violations:
        b = (bad1 + bad2)[0]
        ctx.violation('model and implementation disagree: %r' % (b,), dict(kind='correspondence', first=(bad1 + bad2)[:5]))
    if ctx.broken and not ctx.violations:
        ctx.violation('obligation or tie no longer checks: %s' % ctx.broken[0], dict(kind='obligation', broken=ctx.broken), found_input=False)
    return ctx.finish(level='proof', checker_cmd='make -C /verif/coq (coqc 8.16.1) + coqc properties/C05.v (Print Assumptions)',
                      assumptions=['integer-valued data: dense comparisons are exact'])


def replay(ctx, path):
    print(json.dumps(json.load(open(path)), indent=1)[:4000])
    return 0
