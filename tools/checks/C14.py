"""C14 -- results do not depend on contraction policy, fusion mode or lazy state.
proof (partial): Lazy/Lazy.v (lazy transposition faithful and compositional); tie/search: every generated program is run under all
tensordot policies x fusion settings x lazy-vs-materialised; all runs must give identical legs, charge and dense values (and, via
tgen's oracle, agree with NumPy).  contract_with_unroll: all unroll specifications/paths vs plain ncon."""
import json, itertools
import numpy as np
import vlib, tcheck

PROP_V = 'properties/C14.v'
VARIANTS = [dict(policy='fuse_to_matrix'), dict(policy='fuse_contracted'), dict(policy='no_fusion'),
            dict(policy='fuse_to_matrix', force='meta'), dict(policy='fuse_contracted', force='hard'), dict(policy='no_fusion', force='meta'),
            dict(policy='fuse_to_matrix', consume=True), dict(policy='no_fusion', consume=True), dict(policy='fuse_contracted', fusion='meta')]


def unroll_cases(ctx):
    import yastn, tgen
    rng = ctx.rng
    nrep = 25 if ctx.tier == 'quick' else 400
    for rep in range(nrep):
        sym = rng.choice(['U1', 'Z2', 'Z3', 'dense', 'U1xU1'])
        cfg = tgen.make_cfg(sym, policy=rng.choice(tgen.POLICIES))
        li, lj, lk, ll = (tgen.rleg(rng, cfg, sym, maxD=4) for _ in range(4))
        A = tgen.rtensor(rng, cfg, [li, lj.conj()], n=tgen.allowed_charge(rng, cfg, sym, [li, lj.conj()]))
        B = tgen.rtensor(rng, cfg, [lj, lk.conj(), ll], n=tgen.allowed_charge(rng, cfg, sym, [lj, lk.conj(), ll]))
        C = tgen.rtensor(rng, cfg, [lk, ll.conj()], n=tgen.allowed_charge(rng, cfg, sym, [lk, ll.conj()]))
        net = rng.choice(['AB', 'ABC', 'MB', 'AB-permuted'])
        if net == 'MB':
            # a META-FUSED output leg in front of the other (possibly unrolled) output legs
            lm1, lm2 = tgen.rleg(rng, cfg, sym, maxD=2), tgen.rleg(rng, cfg, sym, maxD=2)
            T0 = tgen.rtensor(rng, cfg, [lm1, lm2, lj.conj()], n=tgen.allowed_charge(rng, cfg, sym, [lm1, lm2, lj.conj()]))
            T = T0.fuse_legs(axes=((0, 1), 2), mode='meta')
            args = (T, ('m', 'j'), B, ('j', 'k', 'l'), ('m', 'k', 'l'))
            ref = yastn.ncon([T, B], [[-1, 1], [1, -2, -3]])
            labels = {'j': lj, 'k': lk.conj(), 'l': ll}
        elif net == 'AB-permuted':
            # output labels in another order than they appear (the partial results carry a pending transposition)
            args = (A, ('i', 'j'), B, ('j', 'k', 'l'), ('l', 'i', 'k'))
            ref = yastn.ncon([A, B], [[-2, 1], [1, -3, -1]])
            labels = {'i': li, 'j': lj, 'k': lk.conj(), 'l': ll}
        elif net == 'AB':
            args = (A, ('i', 'j'), B, ('j', 'k', 'l'), ('i', 'k', 'l'))
            ref = yastn.ncon([A, B], [[-1, 1], [1, -2, -3]])
            labels = {'i': li, 'j': lj, 'k': lk.conj(), 'l': ll}
        else:
            args = (A, ('i', 'j'), B, ('j', 'k', 'l'), C, ('k', 'l'), ('i',))
            ref = yastn.ncon([A, B, C], [[-1, 1], [1, 2, 3], [2, 3]])
            labels = {'i': li, 'j': lj, 'k': lk, 'l': ll}
        try:
            path, _ = yastn.get_contraction_path(*args)
        except Exception as e:
            ctx.count('unroll:path-failed')
            continue
        specs = [None]
        for lab in rng.sample(sorted(labels), 2):
            specs.append({lab: rng.choice([1, 2, 3])})
            try:
                specs.append({lab: yastn.make_sliced_legs(labels[lab])})
            except Exception:
                pass
        two = rng.sample(sorted(labels), 2)
        specs.append({two[0]: 2, two[1]: 2})
        # a hand-written partition with a cut INSIDE a sector; sectors named by tuples or (single-component symmetries) by plain ints
        if sym != 'dense':
            lab = rng.choice(sorted(labels))
            L_ = labels[lab]
            big = [i for i, d in enumerate(L_.D) if d >= 2]
            if big:
                i0 = rng.choice(big)
                cut = rng.randint(1, L_.D[i0] - 1)
                plain = len(L_.t[0]) == 1 and rng.random() < 0.6
                key = (lambda t: t[0]) if plain else (lambda t: t)
                p1 = yastn.SlicedLeg(t=[key(L_.t[i0])], D=[cut], slices={key(L_.t[i0]): slice(0, cut)})
                p2 = yastn.SlicedLeg(t=[key(t) for t in L_.t], D=[(d - cut if i == i0 else d) for i, d in enumerate(L_.D)],
                                     slices={key(t): (slice(cut, L_.D[i0]) if i == i0 else slice(None)) for i, t in enumerate(L_.t)})
                specs.append({lab: [p1, p2]})
                ctx.count('unroll:hand-written:' + ('int-keys' if plain else 'tuple-keys'))
        robs = tgen.obs(ref)
        for spec in specs:
            spec_before = repr(spec)
            try:
                res = yastn.contract_with_unroll(*args, unroll=spec, optimize=path)
            except yastn.YastnError as e:
                ctx.count('unroll:rejected')
                continue
            if repr(spec) != spec_before:
                ctx.violation('contract_with_unroll changed the unroll specification it was given: %s -> %s' % (spec_before, repr(spec)[:120]),
                              dict(kind='unroll-mutates-spec', net=net, sym=sym, spec=spec_before, rep=rep), family='unroll-mutates-spec')
            ctx.count('unroll:run')
            ctx.case(dict(kind='unroll', net=net, sym=sym, spec=repr(spec)[:80], rep=rep), nontrivial=ref.size > 0)
            ok = tuple(res.n) == tuple(ref.n) and res.get_legs() == ref.get_legs() and np.array_equal(res.to_numpy(), ref.to_numpy())
            if not ok:
                # legs may legitimately differ by explicitly stored zero blocks only if dense values agree on union legs
                try:
                    lg = {i: yastn.legs_union(res.get_legs(i), ref.get_legs(i)) for i in range(ref.ndim)}
                    ok = tuple(res.n) == tuple(ref.n) and np.array_equal(res.to_numpy(legs=lg), ref.to_numpy(legs=lg))
                except Exception:
                    ok = False
            if not ok:
                ctx.violation('contract_with_unroll(unroll=%r) differs from ncon on network %s (sym %s)' % (spec, net, sym),
                              dict(kind='unroll', net=net, sym=sym, spec=repr(spec), rep=rep, seed=ctx.seed))


def run(ctx):
    st = vlib.prepare(ctx, PROP_V)
    quick = ctx.tier == 'quick'
    import tgen
    ctx.cov['rule'] = ('each generated program (kinds tensordot, ncon, fuse, chain (sequences incl. svd), trace, add, vdot, diag) is run under 9 configurations '
                       '(3 tensordot policies x {default, force_fusion meta/hard, default_fusion meta} x {lazy, consume_transpose on every operand}); observables '
                       '(legs with history stripped of mode, charge, dense bytes) must be identical; contract_with_unroll under unroll specs (ints, sector slicing, '
                       'two labels) vs ncon. non-trivial = program that ran in the reference configuration; distinct by (kind, seed)')
    n = 120 if quick else 2500
    base = ctx.seed % 1000 * 100000
    kinds = ['tensordot', 'ncon', 'fuse', 'chain', 'trace', 'add', 'vdot', 'diag']
    jobs = [(k, s, dict(base={}, variants=VARIANTS), 'differential') for k in kinds for s in range(base, base + n)]
    recs = tcheck.run_jobs(jobs)
    for r in recs:
        ctx.count('diff:%s:%s' % (r['kind'], r['status']))
        if r['status'] == 'crash':
            ctx.violation('differential case crashed: %s' % r['detail'][:300], dict(kind=r['kind'], seed=r['seed'], detail=r['detail']))
            continue
        d = r['describe']
        ctx.case(dict(kind=r['kind'], seed=r['seed']), nontrivial=d['ref_status'] == 'ok')
        if d['ref_status'] in ('mismatch', 'error'):
            ctx.violation('%s case seed %d fails in the reference configuration: %s' % (r['kind'], r['seed'], str(d['ref_detail'])[:200]),
                          dict(kind=r['kind'], seed=r['seed'], opts=VARIANTS[0], detail=d['ref_detail']))
        if r['diffs']:
            ctx.violation('%s case seed %d: result depends on configuration: %s' % (r['kind'], r['seed'], r['diffs'][:3]),
                          dict(kind=r['kind'], seed=r['seed'], variants_differing=r['diffs'], reference=VARIANTS[0]))
    unroll_cases(ctx)
    if ctx.broken and not ctx.violations:
        ctx.violation('obligation or tie no longer checks: %s' % ctx.broken[0], dict(kind='obligation', broken=ctx.broken), found_input=False)
    return ctx.finish(level='proof', checker_cmd='make -C /verif/coq (coqc 8.16.1) + coqc properties/C14.v (Print Assumptions)',
                      assumptions=['exact integer-valued data: equality of dense values is bit-for-bit'])


def replay(ctx, path):
    import tgen
    d = json.load(open(path))
    for v in d['violations'][:3]:
        r = v['replay']
        if 'seed' in r and r.get('kind') in tgen.SCENARIOS:
            for o in VARIANTS:
                print(o, tgen.run_case(r['kind'], r['seed'], o)[:2])
    return 0
