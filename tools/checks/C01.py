"""C01 -- tensor algebra agrees with dense linear algebra.
tie/search: every generated operation case (tools/tgen.py) is compared EXACTLY (integer-valued data) with the same NumPy operation
on to_numpy() of the operands, through union legs; legs (order, signatures), charge and is_consistent are checked too."""
import json
import vlib, tcheck

PROP_V = 'properties/C01.v'


def einsum_output_forms(ctx, quick):
    """explicit output lists of einsum, including the empty one ('...->' asks for a scalar, np.einsum sums what is left): the answer is NumPy's or the
    request is rejected -- never a tensor of another rank"""
    import numpy as np, yastn, tgen
    rng = ctx.rng
    for rep in range(40 if quick else 400):
        sym = rng.choice(['U1', 'Z2', 'dense', 'U1xU1'])
        cfg = tgen.make_cfg(sym)
        li, lj, lk = (tgen.rleg(rng, cfg, sym, maxD=3) for _ in range(3))
        a = tgen.rtensor(rng, cfg, [li, lj.conj()], n=cfg.sym.zero())
        b = tgen.rtensor(rng, cfg, [lj, lk.conj()], n=cfg.sym.zero())
        c = tgen.rtensor(rng, cfg, [lj, li.conj()], n=cfg.sym.zero())
        for es, ops_ in (('ij,jk->', (a, b)), ('ij,ji->', (a, c)), ('ij,jk->ki', (a, b)), ('ij,jk', (a, b)), ('ij,ji', (a, c))):
            desc = dict(kind='einsum-output', subscripts=es, sym=sym, rep=rep)
            ctx.case(desc, nontrivial=True)
            ref = np.einsum(es, *[x.to_numpy(legs=dict(enumerate(lg))) for x, lg in zip(ops_, ([li, lj.conj()], [lj, lk.conj()] if ops_[1] is b else [lj, li.conj()]))])
            try:
                r = yastn.einsum(es, *ops_)
            except yastn.YastnError:
                ctx.count('einsum-output:rejected:' + es)
                continue
            ctx.count('einsum-output:answered:' + es)
            if r.ndim != np.ndim(ref):
                ctx.violation('einsum(%r) returns a tensor of rank %d, np.einsum on the dense operands gives rank %d (sym %s)' % (es, r.ndim, np.ndim(ref), sym), desc)
                continue
            lgs = {'ki': {0: lk.conj(), 1: li}, 'ik': {0: li, 1: lk.conj()}}.get(es.split('->')[1] if '->' in es else 'ik', {})
            got = r.to_numpy(legs=lgs) if r.ndim else r.to_numpy()
            if got.shape != np.shape(ref) or not np.array_equal(got, ref):
                ctx.violation('einsum(%r) differs from np.einsum on the dense operands (sym %s)' % (es, sym), desc)


def run(ctx):
    st = vlib.prepare(ctx, PROP_V)
    quick = ctx.tier == 'quick'
    import tgen
    ctx.cov['rule'] = ('seeded cases per operation kind (tensordot incl. outer/conj flags/diagonal operands, add/sub/linear combinations, scalar and '
                       'element-wise ops, conj variants, transposition lazy/materialised, trace, vdot, broadcast, apply_mask, diag, add/remove leg, ncon/'
                       'einsum, fused operands, operation sequences) over 7 symmetries x 3 policies, ranks 0-5, sector sets equal/overlapping/disjoint, '
                       'empty results, real/complex integer data; compared with NumPy exactly. non-trivial = case whose result has >= 1 block; '
                       'distinct by (kind, seed)')
    n = 800 if quick else 12000
    base = ctx.seed % 1000 * 100000
    kinds = ['tensordot', 'add', 'unary', 'trace', 'vdot', 'diag', 'legs', 'ncon', 'fuse', 'chain']
    jobs = [(k, s, {}, 'plain') for k in kinds for s in range(base, base + n)]
    recs = tcheck.run_jobs(jobs)
    for r in recs:
        ctx.case(dict(kind=r['kind'], seed=r['seed'], describe=r['describe']), nontrivial=r.get('nblocks', 1) > 0 and r['status'] == 'ok')
        ctx.count('%s:%s' % (r['kind'], r['status']))
        if r['status'] in ('mismatch', 'crash'):
            ctx.violation('%s case seed %d disagrees with NumPy: %s' % (r['kind'], r['seed'], r['detail'][:300]),
                          dict(kind=r['kind'], seed=r['seed'], opts=r['opts'], detail=r['detail'], describe=r['describe']))
        elif r['status'] == 'error':
            # well-formed operands: the operation must not be rejected
            ctx.violation('%s case seed %d raised on well-formed operands: %s' % (r['kind'], r['seed'], r['detail'][:300]),
                          dict(kind=r['kind'], seed=r['seed'], opts=r['opts'], detail=r['detail'], describe=r['describe']))
    einsum_output_forms(ctx, quick)
    # ---- L-block model correspondence for the linear operations (the proved part): blocks in, blocks out, exact
    nb = 1200 if quick else 15000
    brecs = tcheck.run_jobs([('add', s, {}, 'blocks_lin') for s in range(base, base + nb)])
    mjobs, msrc = [], []
    for r in brecs:
        if r['status'] != 'ok':
            ctx.count('blocks_lin:' + r['status'])
            if r['status'] == 'crash':
                ctx.violation('linear-operation case seed %d crashed: %s' % (r['seed'], r['detail'][:300]), dict(kind='blocks_lin', seed=r['seed'], detail=r['detail']))
            continue
        a, b = r['arg_blocks']
        for opc, res in enumerate(r['results']):
            mjobs.append((50, [opc, r['xy'][0], r['xy'][1], a, b]))
            msrc.append((r['seed'], opc, res))
        ctx.case(dict(kind='blocks_lin', seed=r['seed'], nblocks=(len(a), len(b))), nontrivial=len(a) + len(b) > 0)
        ctx.count('blocks_lin:ok')
    disagreements = []
    if st['model_ok'] and mjobs:
        mo = vlib.run_model(mjobs)
        for (seed, opc, res), m in zip(msrc, mo):
            if m[0] != 1:
                disagreements.append(dict(seed=seed, op=opc, why='model hypotheses (sorted keys / compatible shapes) not met by the operands'))
            elif m[1] != res:
                disagreements.append(dict(seed=seed, op=['add', 'sub', 'lin'][opc], model=m[1], impl=res))
        step = max(1, len(mjobs) // 80)
        ok, idx, ns = vlib.coq_sample('C01', [(50, j[1], [1, r_]) for j, (_, _, r_) in list(zip(mjobs, msrc))[::step]][:80])
        ctx.extra['coq_vm_sample'] = dict(n=ns, mismatches=len(idx), ok=ok)
        if not ok and not disagreements:
            ctx.broken.append('in-Coq vm_compute sample disagrees with the extracted driver/implementation at %r' % idx[:5])
    ctx.extra['block_model_correspondence'] = dict(cases=len(mjobs), disagreements=len(disagreements))
    if disagreements and not ctx.violations:
        ctx.violation('L-block model and implementation disagree on a linear operation: %r' % (disagreements[0],), dict(kind='correspondence', first=disagreements[:5]))
    if ctx.broken and not ctx.violations:
        ctx.violation('obligation or tie no longer checks: %s' % ctx.broken[0], dict(kind='obligation', broken=ctx.broken), found_input=False)
    return ctx.finish(level='proof', checker_cmd='make -C /verif/coq (coqc 8.16.1) + coqc properties/C01.v (Print Assumptions)',
                      assumptions=['float64 arithmetic on integers below 2^53 is exact'])


def replay(ctx, path):
    import tgen
    d = json.load(open(path))
    for v in d['violations'][:3]:
        r = v['replay']
        if 'seed' in r and 'kind' in r:
            print('re-running', r['kind'], r['seed'], tgen.run_case(r['kind'], r['seed'], r.get('opts'))[:2])
    return 0
