"""C10 -- TDVP conserves what it must and is exact on the full manifold.
proof: Gen/StepGen.v (step arithmetic translated from yastn/tn/mps/_tdvp.py by tools/translate/tr_step.py) + Tdvp/StepLaws.v; Gen/SweepGen.v
(sweep programs, tools/translate/tr_sweep.py) on Sweep/Sweep.v + Sweep/SweepTdvp*.v.
tie: both translators run on every build; real tdvp_ runs are observed operation by operation (run-time wrappers) and replayed through the
environment model; the (time, length) arguments of every sweep of real runs are compared with the generated compositions in exact rationals.
search / premises: dense exp(-u t H) at maximal bond dimension (real, imaginary, complex u; 2nd / 4th order; dt not dividing the interval),
norm / energy / charge / canonical form / reported times, convergence orders for time-dependent generators (scipy solve_ivp reference)."""
import json, os
from fractions import Fraction
import numpy as np
import vlib

PROP_V = 'properties/C10.v'
OP_TRACE, OP_PROG, OP_STEPS, OP_ORDER, OP_HALF, OP_PROG12 = 130, 131, 140, 141, 142, 132


def q(x):
    fr = Fraction(float(x))
    return [fr.numerator, fr.denominator]


def unq(s):
    return Fraction(s[0], s[1])


def problem(rng, Nmax=None, fam=None, cplx=None):
    import dgen, mgen
    fam, sym = fam or rng.choice(dgen.FAMILIES)
    ops = mgen.operators(fam, sym)
    d = sum(ops.space().D)
    N = rng.randint(2, Nmax or (5 if d <= 2 else 3))
    cplx = (rng.random() < 0.3) if cplx is None else cplx
    H, terms = dgen.hamiltonian(rng, fam, ops, N, cplx=cplx)
    n = rng.choice(mgen.admissible_charges(ops, N))
    return fam, sym, ops, N, H, n, cplx


CASE_LIMIT = 90     # seconds per tdvp_ run (SIGALRM); the runs of the generated cases take 0.05 - 3 s on the unchanged tree


def trace_cases(ctx, st, n_cases, jobs, src, seeds=None):
    import random, dgen, mgen, sweeptrace, yastn.tn.mps as mps, yastn
    for rep in range(n_cases):
        sd = seeds[rep] if seeds is not None else ctx.rng.randrange(2 ** 31)
        rng = random.Random(sd)
        fam, sym, ops, N, H, n, cplx = problem(rng, Nmax=6)
        method = rng.choice(['1site', '2site', '12site'])
        pre = rng.random() < 0.5
        try:
            psi = dgen.random_state(rng, ops, N, D_total=rng.randint(1, 8), n=n, cplx=True)
        except Exception:
            continue
        nsteps = rng.randint(1, 2) if method != '12site' else 1
        Hs = H if rng.random() < 0.7 else [H, -0.5 * dgen.hamiltonian(rng, fam, ops, N, cplx=cplx)[0]]
        desc = dict(kind='tdvp-trace', family=fam, sym=sym, N=N, method=method, precompute=pre, steps=nsteps, case_seed=sd)
        ctx.case(desc, nontrivial=True)
        if os.environ.get('VERIF_DEBUG'):
            print('case', json.dumps(desc), flush=True)
        with sweeptrace.traced(psi) as tr:
            try:
                with vlib.time_limit(CASE_LIMIT):
                    for _ in mps.tdvp_(psi, Hs, times=(0, 0.05 * nsteps), dt=0.05, u=1j, method=method, opts_svd={'D_total': rng.choice([4, 16]), 'tol': rng.choice([1e-12, 1e-6])}, precompute=pre,
                                       opts_expmv={'hermitian': True, 'tol': 1e-12}):
                        pass
            except vlib.TimeLimit:
                ctx.violation('tdvp_(%s, precompute=%s) did not finish %d step(s) within %d s (%s %s N=%d; such a run takes well under a second on the unchanged tree)' % (
                    method, pre, nsteps, CASE_LIMIT, fam, sym, N), desc)
                continue
            except (KeyError, yastn.YastnError, ValueError, IndexError) as e:
                ctx.violation('tdvp_(%s, precompute=%s) raised %s: %s (%s %s N=%d)' % (method, pre, type(e).__name__, str(e)[:100], fam, sym, N), desc)
                continue
        ops_real = [o for o, _, _ in tr.ops]
        jobs.append((OP_TRACE, [int(pre), N, ops_real]))
        src.append(('trace', desc, tr.ops, N, pre))
        if method == '12site':
            dec = [int(x) for x in tr.decisions]
            jobs.append((OP_PROG12, [int(pre), N, dec[:N], dec[N:2 * N]]))
            src.append(('prog', dict(desc, decisions=dec), ops_real, N, pre, nsteps))
            ctx.count('trace:12site:merged-bonds', sum(dec))
        else:
            jobs.append((OP_PROG, [2 if method == '1site' else 3, int(pre), N]))
            src.append(('prog', desc, ops_real, N, pre, nsteps))
        ctx.count('trace:' + method + (':pre' if pre else ''))


def clock_cases(ctx, n_cases, jobs, src, seeds=None):
    """(time, length) of every sweep of real runs, and the reported TDVP_out, vs the generated arithmetic"""
    import random, dgen, mgen, yastn.tn.mps as mps, yastn
    from yastn.tn.mps import _tdvp
    for rep in range(n_cases):
        sd = seeds[rep] if seeds is not None else ctx.rng.randrange(2 ** 31)
        rng = random.Random(sd)
        fam, sym = 'Spin12', rng.choice(['dense', 'Z2', 'U1'])
        ops = mgen.operators(fam, sym)
        N = 2
        H0, _ = dgen.hamiltonian(rng, fam, ops, N)
        psi = dgen.random_state(rng, ops, N, D_total=4, n=rng.choice(mgen.admissible_charges(ops, N)), cplx=True)
        t0 = rng.choice([0.0, 0.3, -1.25])
        nint = rng.randint(1, 3)
        times = [t0]
        for _ in range(nint):
            times.append(times[-1] + rng.choice([0.1, 0.25, 1.0 / 3, 0.07, 1.0]))
        dt = rng.choice([0.1, 0.03, 0.25, 0.125, 1.0 / 7, 0.5])
        order = rng.choice(['2nd', '4th'])
        method = rng.choice(['1site', '2site'])
        u = rng.choice([1j, 1.0, 0.5 + 0.5j])
        calls = []
        seen_t = []

        def Ht(t):
            seen_t.append(t)
            return H0
        orig = (_tdvp._tdvp_sweep_1site_, _tdvp._tdvp_sweep_2site_)

        def w1(psi_, H_, dt0, u_, *a, **k):
            calls.append((seen_t[-1], dt0, u_)); return orig[0](psi_, H_, dt0, u_, *a, **k)

        def w2(psi_, H_, dt0, u_, *a, **k):
            calls.append((seen_t[-1], dt0, u_)); return orig[1](psi_, H_, dt0, u_, *a, **k)
        _tdvp._tdvp_sweep_1site_, _tdvp._tdvp_sweep_2site_ = w1, w2
        outs = []
        try:
            for out in mps.tdvp_(psi, Ht, times=tuple(times), dt=dt, u=u, method=method, order=order, opts_svd={'D_total': 4}, opts_expmv={'hermitian': True}):
                outs.append(out)
        finally:
            _tdvp._tdvp_sweep_1site_, _tdvp._tdvp_sweep_2site_ = orig
        desc = dict(kind='tdvp-clock', times=times, dt=dt, order=order, method=method, u=str(u), case_seed=sd)
        ctx.case(desc, nontrivial=True)
        ctx.count('clock:' + order)
        if len(outs) != nint:
            ctx.violation('tdvp_ yielded %d snapshots for %d intervals' % (len(outs), nint), desc)
            continue
        pos = 0
        for k, out in enumerate(outs):
            a, b = times[k], times[k + 1]
            if out.ti != a or abs(out.tf - b) > 1e-12 * max(1.0, abs(b)):
                ctx.violation('tdvp_ reports the interval (%r, %r) for the snapshot (%r, %r)' % (out.ti, out.tf, a, b), desc)
            per = 1 if order == '2nd' else 5
            mine = calls[pos:pos + per * out.steps]
            pos += per * out.steps
            jobs.append((OP_STEPS, [q(a), q(b), q(dt)]))
            src.append(('steps', desc, dict(steps=out.steps, ds=out.dt, a=a, b=b)))
            t = a
            for s_ in range(out.steps):
                jobs.append((OP_ORDER, [2 if order == '2nd' else 4, q(t), q(out.dt)]))
                src.append(('order', desc, mine[s_ * per:(s_ + 1) * per], b - a))
                t = t + out.dt
            if any(c[2] != u for c in mine):
                ctx.violation('a sweep was called with u = %r instead of %r' % ([c[2] for c in mine][:3], u), desc)
        if pos != len(calls):
            ctx.violation('tdvp_ performed %d sweeps, the reported step counts account for %d' % (len(calls), pos), desc)


def dense_evolve(Hd_of_t, v0, u, t0, t1, time_independent):
    import scipy.linalg, scipy.integrate
    if time_independent:
        return scipy.linalg.expm(-u * (t1 - t0) * Hd_of_t(t0)) @ v0
    f = lambda t, y: (-u) * (Hd_of_t(t) @ y)
    sol = scipy.integrate.solve_ivp(f, (t0, t1), v0.astype(complex), method='DOP853', rtol=1e-12, atol=1e-14)
    return sol.y[:, -1]


def numeric_cases(ctx, n_cases, seeds=None, focus=None):
    import random, dgen, mgen, yastn.tn.mps as mps, yastn
    for rep in range(n_cases):
        sd = seeds[rep] if seeds is not None else ctx.rng.randrange(2 ** 31)
        rng = random.Random(sd)
        fam, sym, ops, N, H, n, cplx = problem(rng)
        mode = focus or rng.choice(['exact', 'exact', 'conserve', 'timedep'])
        method = rng.choice(['1site', '2site', '12site']) if mode != 'conserve' else rng.choice(['1site', '1site', '2site'])
        order = rng.choice(['2nd', '4th'])
        pre = rng.random() < 0.4
        sub = rng.random() < 0.3
        u = rng.choice([1j, 1j, 1.0, 0.6 + 0.8j, 0.3 - 1j]) if mode != 'conserve' else 1j
        normalize = (rng.random() < 0.5) if abs(u.real if isinstance(u, complex) else u) > 0 else (rng.random() < 0.3)
        Hd = dgen.dmat(H, ops)
        mask = dgen.sector_mask(ops, N, n)
        desc = dict(kind='tdvp', mode=mode, family=fam, sym=sym, N=N, method=method, order=order, precompute=pre, subtract_E=sub, u=str(u), normalize=normalize, cplx=cplx,
                    case_seed=sd)
        scaleH = max(1.0, np.linalg.norm(Hd, 2))
        T = rng.choice([0.2, 0.37, 0.5]) / scaleH * 2
        dt = T / rng.choice([1.0, 2.5, 3.0, 7.3])
        try:
            psi = dgen.random_state(rng, ops, N, D_total=64 if mode != 'conserve' else rng.randint(2, 5), n=n, cplx=True)
        except Exception:
            continue
        if mode != 'conserve':
            # maximal bond dimension: the exact MPS of a generic vector of the sector (all Schmidt ranks maximal), not random_mps (which spreads a
            # requested total over the charge sectors and may leave some out)
            import sys as _s, os as _o
            _s.path.insert(0, _o.path.join(vlib.VERIF, 'tools', 'checks'))
            import C09
            idx = np.where(mask)[0]
            g = np.zeros(len(mask), dtype=complex)
            g[idx] = np.array([rng.gauss(0, 1) + 1j * rng.gauss(0, 1) for _ in idx])
            try:
                psi = C09._dense_to_mps(ops, N, g / np.linalg.norm(g), n)
            except Exception:
                continue
        # the initial state as a user may hand it over: canonical and normalised / with a prefactor / not canonical at all
        prep = rng.choice(['canonical', 'canonical', 'canonical', 'scaled', 'raw'])
        if prep == 'raw' and mode == 'conserve':
            psi = (1.0 / float(psi.norm())) * psi           # gauge untouched, the norm sits in psi.factor
        else:
            psi.canonize_(to='first', normalize=True)
            if prep == 'scaled':
                psi = rng.choice([2.0, 0.5]) * psi
        desc['prep'] = prep
        v0 = dgen.dvec(psi, ops)
        nv0 = float(np.linalg.norm(v0))
        ctx.count('tdvp:prep:' + prep)
        ctx.case(desc, nontrivial=int(mask.sum()) >= 2)
        ctx.count('tdvp:' + mode + ':' + method + ':' + order)
        opts = dict(method=method, order=order, opts_svd={'D_total': 64, 'tol': 1e-13}, precompute=pre, subtract_E=sub, normalize=normalize,
                    opts_expmv={'hermitian': True, 'tol': 1e-13, 'ncv': 6})
        if mode == 'timedep':
            H1, _ = dgen.hamiltonian(rng, fam, ops, N, cplx=cplx)
            Hd1 = dgen.dmat(H1, ops)
            om = rng.choice([3.0, 7.0]) * scaleH
            Hfun = lambda t: [H, float(np.sin(om * t)) * H1]
            Hd_of_t = lambda t: Hd + np.sin(om * t) * Hd1
        else:
            # the generator as one MPO, an MPO with a prefactor, or a sum of MPOs with prefactors
            form = rng.choice(['single', 'single', 'scaled', 'sum'])
            if form == 'scaled':
                cH = rng.choice([0.5, 2.0, -1.5])
                Hfun, Hd = cH * H, cH * Hd
            elif form == 'sum':
                H2_, _ = dgen.hamiltonian(rng, fam, ops, N, cplx=cplx)
                ca, cb = rng.choice([1.0, 0.5, 2.0]), rng.choice([-0.5, 0.7, 1.0])
                Hfun, Hd = [ca * H, cb * H2_], ca * Hd + cb * dgen.dmat(H2_, ops)
            else:
                Hfun = H
            scaleH = max(1.0, np.linalg.norm(Hd, 2))
            ctx.count('tdvp:generator:' + form)
            desc['generator'] = form
            Hd_of_t = lambda t, Hd=Hd: Hd
        t_init = rng.choice([0.0, 0.13])

        def run(dt_):
            p = psi.copy()
            last = None
            for out in mps.tdvp_(p, Hfun, times=(t_init, t_init + T), dt=dt_, u=u, **opts):
                last = out
            return p, last
        try:
            with vlib.time_limit(CASE_LIMIT):
                p1, out = run(dt)
        except vlib.TimeLimit:
            ctx.violation('tdvp_ did not finish within %d s (%s %s N=%d %s %s u=%s precompute=%s subtract_E=%s; such a run takes about a second on the unchanged tree)' % (
                CASE_LIMIT, fam, sym, N, method, order, u, pre, opts.get('subtract_E')), desc)
            continue
        except (KeyError, yastn.YastnError, ValueError, IndexError, ZeroDivisionError, OverflowError) as e:
            ctx.violation('tdvp_ raised %s: %s (%s %s N=%d %s %s u=%s precompute=%s)' % (type(e).__name__, str(e)[:100], fam, sym, N, method, order, u, pre), desc)
            continue
        v1 = dgen.dvec(p1, ops)
        if abs(out.tf - (t_init + T)) > 1e-12 * max(1.0, abs(t_init + T)) or out.ti != t_init:
            ctx.violation('tdvp_ reports (ti, tf) = (%r, %r) for the requested (%r, %r)' % (out.ti, out.tf, t_init, t_init + T), desc)
        if np.linalg.norm(v1[~mask]) > 1e-9:
            ctx.violation('tdvp_ left the charge sector of the initial state (%s %s N=%d)' % (fam, sym, N), desc)
        nrm1 = np.linalg.norm(v1)
        bad_sites = [k for k in range(1 if abs(nrm1 - 1) > 1e-9 else 0, N) if not p1.is_canonical(to='first', n=k, tol=1e-8)]
        if bad_sites or p1.pC is not None:
            ctx.violation('tdvp_ returned a state that is not canonical towards the first site (sites %r, pC %r; %s %s N=%d %s normalize=%s u=%s)' % (bad_sites, p1.pC, fam, sym, N, method, normalize, u), desc)
        if mode == 'conserve':
            # real time, time-independent Hermitian generator, 1-site (any bond dimension) or 2-site without truncation
            nrm = np.linalg.norm(v1)
            e0 = np.real(np.vdot(v0, Hd @ v0)) / nv0 ** 2; e1 = np.real(np.vdot(v1, Hd @ v1)) / nrm ** 2
            want_n = 1.0 if normalize else nv0
            if abs(nrm - want_n) > 1e-8 * max(1.0, want_n):
                ctx.violation('tdvp_ (real time, %s) returned norm %r for an initial state of norm %r (%s %s N=%d normalize=%s start=%s)' % (method, nrm, nv0, fam, sym, N, normalize, prep), desc)
            if abs(e1 - e0) > 1e-7 * scaleH:
                ctx.violation('tdvp_ (real time, %s, %s) changed the energy from %r to %r (%s %s N=%d precompute=%s subtract_E=%s start=%s)' % (method, order, e0, e1, fam, sym, N, pre, sub, prep), desc)
            continue
        ref = dense_evolve(Hd_of_t, v0, u, t_init, t_init + T, mode != 'timedep')
        if normalize:
            ref = ref / np.linalg.norm(ref)
            if abs(np.linalg.norm(v1) - 1) > 1e-8:
                ctx.violation('tdvp_(normalize=True) returned norm %r' % np.linalg.norm(v1), desc)

        def dist(v):
            r = ref
            if sub:
                # subtracting the instantaneous local energy changes the state by a scalar factor only (a phase in real time): compare rays
                c = np.vdot(r, v) / max(np.vdot(r, r).real, 1e-300)
                r = c * r
            return np.linalg.norm(v - r) / max(np.linalg.norm(r), 1e-300)
        err = dist(v1)
        steps = int((T - 1e-12) // dt) + 1
        ds = T / steps
        rate = max(scaleH, om if mode == 'timedep' else 0.0)
        p_ord = 2 if order == '2nd' else 4
        complete = (N == 2 and mode == 'exact')
        if complete:
            # both bond bases are complete: every local update is the exact global evolution, independent of dt and order
            ctx.count('tdvp:complete-bond-spaces')
            if err > 1e-8:
                ctx.violation('tdvp_ with complete bond spaces differs from exp(-u t H) psi by %.3g (%s %s N=%d %s %s u=%s dt=T/%.3g precompute=%s subtract_E=%s normalize=%s)' % (
                    err, fam, sym, N, method, order, u, T / dt, pre, sub, normalize), desc)
            continue
        # maximal Schmidt ranks: no projection error; what remains is the splitting / midpoint error of the stated order
        bound = 10.0 * (ds * rate) ** p_ord * max(1.0, T * rate) + 1e-7
        if err > bound:
            ctx.violation('tdvp_ (%s order, %s) is off exp(-u t H) psi by %.3g after %d step(s) of %.3g (bound %.3g; %s %s N=%d u=%s mode=%s)' % (
                order, method, err, steps, ds, bound, fam, sym, N, u, mode), desc)
            continue
        if err > 1e-7 and ds * rate <= 0.3:
            try:
                with vlib.time_limit(2 * CASE_LIMIT):
                    p2, _ = run(ds / 2)
            except vlib.TimeLimit:
                ctx.violation('tdvp_ did not finish within %d s on the refined grid' % (2 * CASE_LIMIT), desc)
                continue
            except Exception as e:
                ctx.violation('tdvp_ raised %s on the refined grid' % type(e).__name__, desc)
                continue
            err2 = dist(dgen.dvec(p2, ops))
            want = 3.0 if order == '2nd' else 9.0
            ctx.count('tdvp:halving-ratio-tested')
            if err2 > err / want * 1.5 + 1e-9:
                ctx.violation('tdvp_ (%s order, %s) error goes from %.3g to %.3g when the step %.3g is halved (expected a factor >= %.0f; %s %s N=%d u=%s mode=%s)' % (
                    order, method, err, err2, ds, want, fam, sym, N, u, mode), desc)


def compare_model(ctx, model_ok, jobs, src):
    import sys, os
    sys.path.insert(0, os.path.join(vlib.VERIF, 'tools', 'checks'))
    import C09
    bad = []
    if model_ok and jobs:
        mo = vlib.run_model(jobs)
        for item, m in zip(src, mo):
            kind = item[0]
            if kind == 'trace':
                _, desc, tr_ops, N, pre = item
                if len(m) != len(tr_ops):
                    bad.append(dict(desc=desc, why='trace length', model=len(m), impl=len(tr_ops))); continue
                C09.compare_trace(ctx, desc, tr_ops, N, pre, m, bad)
            elif kind == 'prog':
                _, desc, ops_real, N, pre, nsteps = item
                prog = [o for o in m if o[0] not in (5, 12, 13)]
                real = [o for o in ops_real if o[0] != 5]
                if real != prog * nsteps:
                    bad.append(dict(desc=desc, why='the observed operations are not %d repetition(s) of the generated program' % nsteps, model=prog[:40], impl=real[:40]))
            elif kind == 'steps':
                _, desc, r = item
                n, ds = unq(m[0]), unq(m[1])
                if n != r['steps'] or abs(float(ds) - r['ds']) > 1e-13 * max(1.0, abs(r['ds'])):
                    bad.append(dict(desc=desc, why='number of steps / step length', model=[float(n), float(ds)], impl=[r['steps'], r['ds']]))
            elif kind == 'order':
                _, desc, calls, T = item
                if len(m) != len(calls):
                    bad.append(dict(desc=desc, why='number of sweeps per step', model=len(m), impl=len(calls))); continue
                for (tm, dm), (tr_, dr, _) in zip(m, calls):
                    if abs(float(unq(tm)) - tr_) > 1e-12 * max(1.0, abs(tr_)) or abs(float(unq(dm)) - dr) > 1e-12 * max(1.0, abs(dr)):
                        bad.append(dict(desc=desc, why='(time, length) of a sweep', model=[float(unq(tm)), float(unq(dm))], impl=[tr_, dr]))
                        break
        ok, idx_, ns = vlib.coq_sample('C10', [(op, arg, out) for (op, arg), out in list(zip(jobs, mo)) if op in (OP_STEPS, OP_ORDER)][:40])
        ctx.extra['coq_vm_sample'] = dict(n=ns, mismatches=len(idx_), ok=ok)
        if not ok and not bad:
            ctx.broken.append('in-Coq vm_compute sample disagrees with the extracted driver at %r' % idx_[:5])
    return bad


def run(ctx):
    st = vlib.prepare(ctx, PROP_V, need_translators=('tr_sweep', 'tr_step', 'tr_deleg'))
    quick = ctx.tier == 'quick'
    ctx.cov['rule'] = ('random Hermitian generators (single MPO and sums) for every operator family x symmetry, N = 2..6, complex initial states of every admissible charge: '
                       '(a) every operation of real 1-site / 2-site sweeps (precompute on/off, several steps on one environment) replayed through the Coq environment model; '
                       '(b) (time, length) of every sweep and the reported TDVP_out for random grids (dt not dividing the interval, several snapshots, 2nd / 4th order) vs the '
                       'generated arithmetic; (c) at maximal bond dimension: exp(-u t H) psi for real / imaginary / complex u, methods 1site / 2site / 12site, normalize / '
                       'subtract_E / precompute; norm, energy, charge, canonical form, times for real-time evolution at small bond dimension; time-dependent generators vs '
                       'solve_ivp with error bound and convergence ratio. non-trivial = sector dimension >= 2')
    jobs, src = [], []
    trace_cases(ctx, st, 16 if quick else 200, jobs, src)
    clock_cases(ctx, 20 if quick else 300, jobs, src)
    numeric_cases(ctx, 40 if quick else 600)
    bad = compare_model(ctx, st['model_ok'], jobs, src)
    ctx.extra['correspondence'] = dict(by_kind={k: sum(1 for s in src if s[0] == k) for k in ('trace', 'prog', 'steps', 'order')}, disagreements=len(bad))
    if (bad or ctx.broken) and not ctx.violations:
        numeric_cases(ctx, 60, focus='timedep')
        numeric_cases(ctx, 60, focus='exact')
        ctx.extra['extended_search'] = dict(cases=120, found=len(ctx.violations))
    if bad and not ctx.violations:
        ctx.violation('TDVP model and implementation disagree: %s' % json.dumps(bad[0], default=str)[:700], dict(kind='correspondence', first=bad[:2]))
    if ctx.broken and not ctx.violations:
        ctx.violation('obligation or tie no longer checks: %s' % ctx.broken[0], dict(kind='obligation', broken=ctx.broken), found_input=False)
    return ctx.finish(level='proof', checker_cmd='make -C /verif/coq (coqc 8.16.1) + coqc properties/C10.v (Print Assumptions)',
                      assumptions=['local exponentials are exact to the expmv tolerance (C18)', 'projector splitting is exact on the full manifold (validated densely)'])


def replay(ctx, path):
    st = vlib.prepare(ctx, PROP_V, need_translators=('tr_sweep', 'tr_step', 'tr_deleg'))
    rec = json.load(open(path))
    jobs, src = [], []
    for v in rec.get('violations', []):
        d = v.get('replay') or {}
        sd = d.get('case_seed')
        if sd is None:
            print('not replayable by seed:', json.dumps(d, default=str)[:600]); continue
        k = d.get('kind', '')
        if k == 'tdvp-trace':
            trace_cases(ctx, st, 1, jobs, src, seeds=[sd])
        elif k == 'tdvp-clock':
            clock_cases(ctx, 1, jobs, src, seeds=[sd])
        else:
            numeric_cases(ctx, 1, seeds=[sd], focus=d.get('mode'))
    bad = compare_model(ctx, st['model_ok'], jobs, src)
    for b in bad:
        print('MODEL-DISAGREEMENT', json.dumps(b, default=str)[:800])
    for v in ctx.violations:
        print('REPRODUCED', v['what'][:400])
    return 1 if (ctx.violations or bad) else 0
