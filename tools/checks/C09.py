"""C09 -- DMRG is variational and self-consistent.
proof: Sweep/Sweep.v (bookkeeping of environment tensors) + Gen/SweepGen.v (the sweep PROGRAMS, translated from yastn/tn/mps/_dmrg.py by
tools/translate/tr_sweep.py on every run) + Sweep/SweepDmrg*.v: for every chain length, every sequence of 1-site / 2-site sweeps, with and
without precompute, each effective-Hamiltonian application and each energy measurement reads environments that are present and computed from
the current site tensors, the gauge moves are never refused, and a sweep hands the environment over in the state the next one expects.
tie: real dmrg_ runs are observed operation by operation (methods wrapped at run time, no change to the repository): the sequence of
operations must be the generated program, and after every operation the status of every environment entry (absent / equal to a recomputation /
different) must be what the model says. search / premises: energies, norms, charges, variational bound, monotonicity, eigenstate at full bond
dimension, projection penalties, sums of MPOs, precompute vs dense numpy references."""
import json
import numpy as np
import vlib

PROP_V = 'properties/C09.v'
OP_TRACE, OP_PROG = 130, 131


def compare_trace(ctx, desc, tr_ops, N, pre, model_out, bad):
    """model snapshots vs measured statuses"""
    for step, ((op, st, pc), m) in enumerate(zip(tr_ops, model_out)):
        mL, mR, mCL, mCR, mpc, mok = m
        if mok != 1:
            bad.append(dict(desc=desc, step=step, op=op, why='the model flags a missing/stale read or a refused move on the real operation sequence', model=m))
            return
        if st is None:
            continue
        if mpc != pc:
            bad.append(dict(desc=desc, step=step, op=op, why='central block position', model=mpc, impl=pc))
            return
        for name, a, b in (('L', mL, st[0]), ('R', mR, st[1]), ('CL', mCL, st[2]), ('CR', mCR, st[3])):
            for i, (x, y) in enumerate(zip(a, b)):
                if (x == 0) != (y == 0):
                    bad.append(dict(desc=desc, step=step, op=op, why='presence of %s[%d]' % (name, i), model=a, impl=b))
                    return
                if x == 1 and y != 1:
                    bad.append(dict(desc=desc, step=step, op=op, why='%s[%d] should be up to date but differs from its recomputation' % (name, i), model=a, impl=b))
                    return


def sweep_ops_real(tr_ops):
    """split the observed operations at the energy measurements: [initial measure], sweep, measure, sweep, measure ..."""
    sweeps, cur = [], []
    for op, st, pc in tr_ops:
        if op == [10]:
            sweeps.append(cur); cur = []
        else:
            cur.append(op)
    return sweeps[1:] if sweeps else []


def problem(rng, N=None, cplx=None, fam=None):
    import dgen, mgen
    fam, sym = fam or rng.choice(dgen.FAMILIES)
    ops = mgen.operators(fam, sym)
    N = N or rng.randint(2, 6 if sum(ops.space().D) <= 2 else 4)
    cplx = (rng.random() < 0.3) if cplx is None else cplx
    H, terms = dgen.hamiltonian(rng, fam, ops, N, cplx=cplx)
    n = rng.choice(mgen.admissible_charges(ops, N))
    return fam, sym, ops, N, H, n, cplx


def trace_cases(ctx, st, n_cases, jobs, src, seeds=None):
    import random, dgen, mgen, sweeptrace, yastn.tn.mps as mps, yastn
    for rep in range(n_cases):
        sd = seeds[rep] if seeds is not None else ctx.rng.randrange(2 ** 31)
        rng = random.Random(sd)
        fam, sym, ops, N, H, n, cplx = problem(rng)
        methods = [rng.choice(['1site', '2site']) for _ in range(rng.randint(1, 3))]
        pre = rng.random() < 0.5
        kind = rng.choice(['single', 'single', 'sum', 'project'])
        try:
            psi = dgen.random_state(rng, ops, N, D_total=rng.randint(2, 8), n=n, cplx=cplx)
        except Exception:
            continue
        Hs = H
        project = None
        if kind == 'sum':
            H2, _ = dgen.hamiltonian(rng, fam, ops, N, cplx=cplx)
            Hs = [H, rng.choice([1.0, -0.5, 2.0]) * H2]
        if kind == 'project':
            try:
                project = [dgen.random_state(rng, ops, N, D_total=4, n=n, cplx=cplx).canonize_(to='first')]
            except Exception:
                project = None
        desc = dict(kind='dmrg-trace', family=fam, sym=sym, N=N, methods=methods, precompute=pre, H=kind, case_seed=sd)
        ctx.case(desc, nontrivial=True)
        with sweeptrace.traced(psi) as tr:
            try:
                for mth in methods:
                    mps.dmrg_(psi, Hs, project=project, method=mth, max_sweeps=1, opts_svd={'D_total': 8, 'tol': 1e-10}, precompute=pre)
                    # a new dmrg_ call builds a new environment: keep the first call only for the trace, the rest is covered by method switches below
                    break
            except (KeyError, yastn.YastnError, ValueError, IndexError) as e:
                ctx.violation('dmrg_(%s, precompute=%s, H=%s) raised %s: %s (%s %s N=%d)' % (methods[0], pre, kind, type(e).__name__, str(e)[:100], fam, sym, N), desc)
                continue
        ops_real = [o for o, _, _ in tr.ops]
        jobs.append((OP_TRACE, [int(pre), N, ops_real]))
        src.append(('trace', desc, tr.ops, N, pre))
        jobs.append((OP_PROG, [0 if methods[0] == '1site' else 1, int(pre), N]))
        src.append(('prog', desc, sweep_ops_real(tr.ops), N, pre))
        ctx.count('trace:' + methods[0] + (':pre' if pre else '') + ':' + kind)
        # method switching on ONE environment: iterator interface with yastn.Method
        if len(methods) > 1:
            psi2 = dgen.random_state(rng, ops, N, D_total=rng.randint(2, 6), n=n, cplx=cplx)
            mt = yastn.Method(methods[0])
            with sweeptrace.traced(psi2) as tr2:
                try:
                    it = mps.dmrg_(psi2, Hs, method=mt, max_sweeps=len(methods), iterator=True, opts_svd={'D_total': 8, 'tol': 1e-10}, precompute=pre)
                    for k, _ in enumerate(it):
                        if k + 1 < len(methods):
                            mt.update_(methods[k + 1])
                except (KeyError, yastn.YastnError, ValueError, IndexError) as e:
                    ctx.violation('dmrg_ switching %r (precompute=%s) raised %s: %s (%s %s N=%d)' % (methods, pre, type(e).__name__, str(e)[:100], fam, sym, N), dict(desc, kind='dmrg-switch'))
                    continue
            jobs.append((OP_TRACE, [int(pre), N, [o for o, _, _ in tr2.ops]]))
            src.append(('trace', dict(desc, kind='dmrg-switch-trace'), tr2.ops, N, pre))
            ctx.count('trace:switch')


def numeric_cases(ctx, n_cases, seeds=None):
    import random, dgen, mgen, yastn.tn.mps as mps, yastn
    for rep in range(n_cases):
        sd = seeds[rep] if seeds is not None else ctx.rng.randrange(2 ** 31)
        rng = random.Random(sd)
        fam, sym, ops, N, H, n, cplx = problem(rng)
        kind = rng.choice(['single', 'single', 'scaled', 'sum', 'project'])
        method = rng.choice(['1site', '2site', 'switch'])
        pre = rng.random() < 0.5
        desc = dict(kind='dmrg', family=fam, sym=sym, N=N, method=method, precompute=pre, H=kind, cplx=cplx, n=list(np.atleast_1d(n)), case_seed=sd)
        Hd = dgen.dmat(H, ops)
        Hs = H
        if kind == 'scaled':
            c = rng.choice([2.5, -0.5, 0.25])
            Hs = c * H
            Hd = c * Hd
        elif kind == 'sum':
            H2, _ = dgen.hamiltonian(rng, fam, ops, N, cplx=cplx)
            c = rng.choice([1.0, -0.5, 2.0])
            Hs = [H, c * H2]
            Hd = Hd + c * dgen.dmat(H2, ops)
        mask = dgen.sector_mask(ops, N, n)
        idx = np.where(mask)[0]
        B = Hd[np.ix_(idx, idx)]
        w, U = np.linalg.eigh(B)
        Dfull = 64
        try:
            psi = dgen.random_state(rng, ops, N, D_total=Dfull, n=n, cplx=cplx)
        except Exception:
            continue
        ctx.case(desc, nontrivial=len(idx) >= 2)
        ctx.count('dmrg:' + method + (':pre' if pre else '') + ':' + kind)
        project = None
        target = w[0]
        if kind == 'project' and len(w) >= 2:
            # the exact ground state as an MPS, penalised: the run must find the first excited level
            gs = np.zeros(len(mask), dtype=U.dtype); gs[idx] = U[:, 0]
            d = sum(ops.space().D)
            try:
                gs_t = _dense_to_mps(ops, N, gs, n)
            except Exception:
                continue
            project = [(abs(w[-1] - w[0]) * 2 + 10.0, gs_t)]
            target = w[1]
            if abs(w[1] - w[0]) < 1e-6:
                continue
        opts_svd = {'D_total': Dfull, 'tol': 1e-12}
        energies = []
        try:
            mt = yastn.Method('1site' if method == '1site' else '2site')
            nsw = 12
            it = mps.dmrg_(psi, Hs, project=project, method=mt, max_sweeps=nsw, iterator=True, opts_svd=opts_svd, precompute=pre,
                           opts_eigs=rng.choice([{'hermitian': True, 'ncv': 8, 'which': 'SR'}, {'hermitian': True, 'ncv': 8, 'which': 'SR'},
                                                 {'hermitian': True, 'ncv': 8}, None]))      # 'which' left to its default; everything left to the defaults
            for k, out in enumerate(it):
                energies.append(out.energy)
                if method == 'switch':
                    mt.update_('1site' if k % 2 == 0 else '2site')
        except (KeyError, yastn.YastnError, ValueError, IndexError, ZeroDivisionError) as e:
            ctx.violation('dmrg_(%s, precompute=%s, H=%s) raised %s: %s (%s %s N=%d)' % (method, pre, kind, type(e).__name__, str(e)[:100], fam, sym, N), desc)
            continue
        v = dgen.dvec(psi, ops)
        scale = max(1.0, abs(w[0]), abs(w[-1]))
        if abs(np.linalg.norm(v) - 1) > 1e-9:
            ctx.violation('dmrg_ returned a state of norm %r (%s %s N=%d %s)' % (np.linalg.norm(v), fam, sym, N, method), desc)
            continue
        if np.linalg.norm(v[~mask]) > 1e-10:
            ctx.violation('dmrg_ left the charge sector of the initial state (%s %s N=%d)' % (fam, sym, N), desc)
        if not psi.is_canonical(to='first', tol=1e-9):
            ctx.violation('dmrg_ returned a state that is not canonical towards the first site', desc)
        e_dense = float(np.real(np.vdot(v, Hd @ v)))
        pen = 0.0
        if project:
            pen = project[0][0] * abs(np.vdot(dgen.dvec(project[0][1], ops), v)) ** 2
        if abs(energies[-1] - (e_dense + pen)) > 1e-8 * scale:
            ctx.violation('dmrg_ reports energy %r, the returned state has <H>%s = %r (%s %s N=%d %s precompute=%s H=%s)' % (
                energies[-1], ' + penalty' if project else '', e_dense + pen, fam, sym, N, method, pre, kind), desc)
            continue
        if e_dense < w[0] - 1e-8 * scale:
            ctx.violation('dmrg_ energy %r below the lowest eigenvalue %r of H in the sector' % (e_dense, w[0]), desc)
        if any(b > a + 1e-8 * scale for a, b in zip(energies[:-1], energies[1:])):
            ctx.violation('dmrg_ energy increased between sweeps without truncation: %r (%s %s N=%d %s precompute=%s H=%s)' % (energies, fam, sym, N, method, pre, kind), desc)
        # converged at maximal bond dimension => eigenstate within the sector
        if len(energies) >= 3 and abs(energies[-1] - energies[-2]) < 1e-11 * scale and abs(energies[-2] - energies[-3]) < 1e-11 * scale:
            ctx.count('dmrg:converged')
            res = Hd @ v - e_dense * v
            if project:
                g = dgen.dvec(project[0][1], ops)
                res = res - g * np.vdot(g, res)
                if abs(np.vdot(g, v)) > 1e-6:
                    ctx.violation('dmrg_ with a projection penalty converged to a state with overlap %r on the penalised state' % abs(np.vdot(g, v)), desc)
            if np.linalg.norm(res[mask]) > 1e-5 * scale:
                ctx.violation('dmrg_ converged at full bond dimension to a state that is not an eigenstate of H in its sector (residual %.3g; %s %s N=%d %s precompute=%s H=%s)' % (
                    np.linalg.norm(res[mask]), fam, sym, N, method, pre, kind), desc)
            elif project and abs(e_dense - target) > 1e-6 * scale and abs(e_dense - w[0]) < 1e-6 * scale:
                ctx.violation('dmrg_ with the ground state penalised still returned the ground level', desc)


def general_cases(ctx, n_cases, seeds=None):
    """initial states of any prefactor / canonical form and truncations that DO bind, any number of sweeps: the part of the statement that is unconditional
    (normalised, canonical, same sector, reported energy = <H> in the returned state, never below the lowest eigenvalue)"""
    import random, dgen, mgen, yastn.tn.mps as mps, yastn
    for rep in range(n_cases):
        sd = seeds[rep] if seeds is not None else ctx.rng.randrange(2 ** 31)
        rng = random.Random(sd)
        fam, sym, ops, N, H, n, cplx = problem(rng)
        method = rng.choice(['1site', '2site', '2site', 'switch'])
        pre = rng.random() < 0.5
        prep = rng.choice(['scaled-canonical', 'raw', 'canonical-last', 'scaled-raw'])
        Dcut = rng.choice([1, 2, 3, 5])
        nsw = rng.randint(1, 3)
        desc = dict(kind='dmrg-general', family=fam, sym=sym, N=N, method=method, precompute=pre, prep=prep, D_total=Dcut, sweeps=nsw, cplx=cplx, n=list(np.atleast_1d(n)), case_seed=sd)
        Hd = dgen.dmat(H, ops)
        mask = dgen.sector_mask(ops, N, n)
        idx = np.where(mask)[0]
        w = np.linalg.eigvalsh(Hd[np.ix_(idx, idx)])
        try:
            psi = dgen.random_state(rng, ops, N, D_total=rng.randint(1, 8), n=n, cplx=cplx)
        except Exception:
            continue
        # projection penalties on arbitrary normalised states with arbitrary weights: reported energy = <H> + sum_i w_i |<p_i|psi>|^2
        project, pvecs = None, []
        if rng.random() < 0.4:
            try:
                project = []
                for _ in range(rng.randint(1, 2)):
                    pst = dgen.random_state(rng, ops, N, D_total=rng.randint(1, 4), n=n, cplx=cplx)
                    pst.canonize_(to='first')
                    wgt = rng.choice([0.37, 3.0, 25.0, 250.0])
                    project.append((wgt, pst))
                    pvecs.append((wgt, dgen.dvec(pst, ops)))
            except Exception:
                project, pvecs = None, []
        desc['project'] = [wv for wv, _ in pvecs]
        c = rng.choice([2.0, -3.0, 0.25, 1.5j]) if 'scaled' in prep else 1.0
        if prep == 'scaled-canonical':
            psi.canonize_(to='first')
        elif prep == 'canonical-last':
            psi.canonize_(to='last', normalize=False)
        if c != 1.0:
            psi = c * psi
        ctx.case(desc, nontrivial=len(idx) >= 2)
        ctx.count('dmrg-general:' + method + ':' + prep)
        try:
            mt = yastn.Method('1site' if method == '1site' else '2site')
            it = mps.dmrg_(psi, H, project=project, method=mt, max_sweeps=nsw, iterator=True, opts_svd={'D_total': Dcut}, precompute=pre,
                           opts_eigs=rng.choice([{'hermitian': True, 'ncv': 4, 'which': 'SR'}, {'hermitian': True, 'ncv': 4}]))
            for k, out in enumerate(it):
                if method == 'switch':
                    mt.update_('1site' if k % 2 == 0 else '2site')
        except (KeyError, yastn.YastnError, ValueError, IndexError, ZeroDivisionError) as e:
            ctx.violation('dmrg_(%s, precompute=%s, %s) raised %s: %s (%s %s N=%d)' % (method, pre, prep, type(e).__name__, str(e)[:100], fam, sym, N), desc)
            continue
        v = dgen.dvec(psi, ops)
        scale = max(1.0, abs(w[0]), abs(w[-1]))
        what = '(%s %s N=%d %s precompute=%s start=%s x %r, opts_svd D_total=%d, %d sweep(s))' % (fam, sym, N, method, pre, prep, c, Dcut, nsw)
        if abs(np.linalg.norm(v) - 1) > 1e-9:
            ctx.violation('dmrg_ returned a state of norm %r %s' % (np.linalg.norm(v), what), desc)
            continue
        if np.linalg.norm(v[~mask]) > 1e-10:
            ctx.violation('dmrg_ left the charge sector of the initial state %s' % what, desc)
        if not psi.is_canonical(to='first', tol=1e-9):
            ctx.violation('dmrg_ returned a state that is not canonical towards the first site %s' % what, desc)
        e_dense = float(np.real(np.vdot(v, Hd @ v)))
        if pvecs:
            what += ' penalties %r' % [wv for wv, _ in pvecs]
            e_dense += sum(wv * abs(np.vdot(pv, v)) ** 2 for wv, pv in pvecs)
            Bp = Hd[np.ix_(idx, idx)] + sum(wv * np.outer(pv[idx], pv[idx].conj()) for wv, pv in pvecs)
            w = np.linalg.eigvalsh(Bp)
            scale = max(scale, abs(w[-1]))
        if abs(out.energy - e_dense) > 1e-8 * scale:
            ctx.violation('dmrg_ reports energy %r, the returned state has <H>%s = %r %s' % (out.energy, ' + penalties' if pvecs else '', e_dense, what), desc)
        if min(out.energy, e_dense) < w[0] - 1e-8 * scale:
            ctx.violation('dmrg_ energy %r below the lowest eigenvalue %r of H in the sector %s' % (min(out.energy, e_dense), w[0], what), desc)


def _dense_to_mps(ops, N, vec, n):
    """MPS of a dense vector (in the sector n) via yastn's own mps_from_tensor on a symmetric tensor built block by block"""
    import yastn, yastn.tn.mps as mps, mgen
    sp = ops.space()
    cfg = ops.config
    legs = [sp] * N
    d = sum(sp.D)
    arr = vec.reshape([d] * N)
    nn = n if cfg.sym.NSYM else None
    T = yastn.zeros(cfg, legs=legs, n=nn, dtype='complex128' if np.iscomplexobj(vec) else 'float64')
    offs = dict(zip(sp.t, np.cumsum((0,) + sp.D[:-1])))
    one = yastn.ones(cfg, legs=legs, n=nn)
    nsym = cfg.sym.NSYM
    for t in one.get_blocks_charge():
        ts = [tuple(t[i * nsym:(i + 1) * nsym]) for i in range(N)] if nsym else [()] * N
        sl = tuple(slice(int(offs[tt]), int(offs[tt]) + int(sp.D[sp.t.index(tt)])) for tt in ts)
        T[t] = arr[sl]
    psi = mps.mps_from_tensor(T, canonize=True)
    return psi


def compare_model(ctx, model_ok, jobs, src):
    bad = []
    if model_ok and jobs:
        mo = vlib.run_model(jobs)
        for item, m in zip(src, mo):
            if item[0] == 'trace':
                _, desc, tr_ops, N, pre = item
                if len(m) != len(tr_ops):
                    bad.append(dict(desc=desc, why='trace length', model=len(m), impl=len(tr_ops)))
                    continue
                compare_trace(ctx, desc, tr_ops, N, pre, m, bad)
            else:
                _, desc, sweeps, N, pre = item
                prog = [o for o in m if o[0] not in (5, 12, 13)]
                for k, sw in enumerate(sweeps[:1]):
                    real = [o for o in sw if o[0] != 5]
                    if real != prog:
                        bad.append(dict(desc=desc, why='the observed operations of sweep %d are not the generated program' % k, model=prog[:40], impl=real[:40]))
        ok, idx_, ns = vlib.coq_sample('C09', [(op, arg, out) for (op, arg), out in list(zip(jobs, mo))[:12]])
        ctx.extra['coq_vm_sample'] = dict(n=ns, mismatches=len(idx_), ok=ok)
        if not ok and not bad:
            ctx.broken.append('in-Coq vm_compute sample disagrees with the extracted driver at %r' % idx_[:5])
    return bad


def run(ctx):
    st = vlib.prepare(ctx, PROP_V, need_translators=('tr_sweep', 'tr_deleg'))
    quick = ctx.tier == 'quick'
    ctx.cov['rule'] = ('Hermitian Hamiltonians from random couplings (hopping + h.c., density-density, fields; real and complex) for every operator family x symmetry, '
                       'N = 2..6, initial states of every admissible charge, methods 1site / 2site / switching, precompute on/off, H single / scaled / sum of MPOs / with a '
                       'projection penalty: (a) every operation of real sweeps observed and replayed through the Coq model (presence and freshness of every environment '
                       'entry after every operation; the operation sequence is the generated program); (b) norm, charge, canonical form, reported energy vs dense <H>, '
                       'variational bound vs eigvalsh in the sector, monotonicity over 12 sweeps, eigenstate at full bond dimension, penalised level; (c) the unconditional part again for '
                       'initial states with any prefactor / canonical form, truncations that bind (D_total 1..5) and 1..3 sweeps. '
                       'non-trivial = sector of dimension >= 2; distinct by case seed')
    jobs, src = [], []
    trace_cases(ctx, st, 24 if quick else 300, jobs, src)
    numeric_cases(ctx, 40 if quick else 600)
    general_cases(ctx, 40 if quick else 600)
    bad = compare_model(ctx, st['model_ok'], jobs, src)
    ctx.extra['correspondence'] = dict(traces=len([s for s in src if s[0] == 'trace']), programs=len([s for s in src if s[0] == 'prog']), disagreements=len(bad))
    if (bad or ctx.broken) and not ctx.violations:
        numeric_cases(ctx, 200)
        general_cases(ctx, 200)
        ctx.extra['extended_search'] = dict(cases=200, found=len(ctx.violations))
    if bad and not ctx.violations:
        ctx.violation('sweep model and implementation disagree: %s' % json.dumps(bad[0], default=str)[:700], dict(kind='correspondence', first=bad[:2]), found_input=True)
    if ctx.broken and not ctx.violations:
        ctx.violation('obligation or tie no longer checks: %s' % ctx.broken[0], dict(kind='obligation', broken=ctx.broken), found_input=False)
    return ctx.finish(level='proof', checker_cmd='make -C /verif/coq (coqc 8.16.1) + coqc properties/C09.v (Print Assumptions)',
                      assumptions=['the local eigensolver returns a vector whose Rayleigh quotient does not exceed that of its start vector (validated: monotone energies)',
                                   'contractions of fresh environments give the effective Hamiltonian (validated: reported energy vs dense <H>)'])


def replay(ctx, path):
    st = vlib.prepare(ctx, PROP_V, need_translators=('tr_sweep', 'tr_deleg'))
    rec = json.load(open(path))
    jobs, src = [], []
    for v in rec.get('violations', []):
        d = v.get('replay') or {}
        sd = d.get('case_seed')
        if sd is None:
            print('not replayable by seed:', json.dumps(d, default=str)[:600]); continue
        if d.get('kind', '').startswith('dmrg-') and 'trace' in d.get('kind', '') or d.get('kind') == 'dmrg-switch':
            trace_cases(ctx, st, 1, jobs, src, seeds=[sd])
        elif d.get('kind') == 'dmrg-general':
            general_cases(ctx, 1, seeds=[sd])
        else:
            numeric_cases(ctx, 1, seeds=[sd])
    bad = compare_model(ctx, st['model_ok'], jobs, src)
    for b in bad:
        print('MODEL-DISAGREEMENT', json.dumps(b, default=str)[:800])
    for v in ctx.violations:
        print('REPRODUCED', v['what'][:400])
    return 1 if (ctx.violations or bad) else 0
