"""C08 -- canonical forms preserve the state; truncation is honest.
proof: Mps/Canon.v + CanonLaws.v (gauge state machine never stuck / one central block / flags after canonize to last; composition and range of the
discarded weight); tie: trace correspondence of pC and per-site canonical flags for random sequences of canonize_/orthogonalize_site_/absorb_central_
on real MPS and MPO; premises validated numerically: dense state before/after, isometries, norm(), Schmidt values and entropies vs numpy SVD across
every cut, reported discarded weight vs the true relative distance for binding truncations in the documented opposite canonical form."""
import json
import numpy as np
import vlib

PROP_V = 'properties/C08.v'
OP_CANON = 110
OP_GAUGE = 82


def flags_ok(psi, model_flags):
    """model says left (1) / right (2) canonical => the real site must be an isometry in that direction"""
    for i, f in enumerate(model_flags):
        if f == 1 and not psi.is_canonical(to='last', n=i, tol=1e-9):
            return 'site %d is not left-canonical' % i
        if f == 2 and not psi.is_canonical(to='first', n=i, tol=1e-9):
            return 'site %d is not right-canonical' % i
    return None


def trace_correspondence(ctx, st, quick):
    import yastn, yastn.tn.mps as mps, mgen
    rng = ctx.rng
    jobs, src = [], []
    for k in range(40 if quick else 1000):
        fam, sym = rng.choice(mgen.FAMILIES)
        ops = mgen.operators(fam, sym)
        N = rng.randint(1, 6)
        is_mpo = rng.random() < 0.3
        try:
            psi = mgen.int_mps(rng, ops, N, D_total=4, n=rng.choice(mgen.admissible_charges(ops, N))) if not is_mpo else mgen.int_mps(rng, ops, N, D_total=3, nr_phys=2)
        except Exception:
            continue
        import numpy as _np
        for n_ in range(N):     # float data so that QR is generic
            psi[n_]._data = psi[n_]._data + 0.1 * _np.cos(_np.arange(psi[n_].size) + n_)
        mops, impl = [], []
        v0 = mgen.dense_state(psi, ops).reshape(-1)
        nv0 = np.linalg.norm(v0)
        norm_mode = None
        for _ in range(rng.randint(2, 8)):
            r = rng.random()
            to = rng.choice([0, 1])
            tos = 'first' if to == 0 else 'last'
            if r < 0.35:
                mops.append([0, to])
                psi.canonize_(to=tos, normalize=False)
                impl.append([[] if psi.pC is None else list(psi.pC), None])
            elif r < 0.75:
                n = rng.randrange(N)
                mops.append([1, n, to])
                try:
                    psi.orthogonalize_site_(n=n, to=tos, normalize=False)
                    impl.append([[] if psi.pC is None else list(psi.pC), None])
                except yastn.YastnError:
                    impl.append(-1)
            else:
                mops.append([2, to])
                psi.absorb_central_(to=tos)
                impl.append([[] if psi.pC is None else list(psi.pC), None])
            # the represented state after every move, also with a pending central block: all moves here use normalize=False
            try:
                if nv0 > 0:
                    v = mgen.dense_state(psi, ops).reshape(-1)
                    ctx.count('mid-sweep state')
                    if not np.allclose(v, v0, rtol=1e-9, atol=1e-9 * nv0):
                        ctx.violation('gauge moves %r changed the represented state (%s %s N=%d, pC=%r)' % (mops, fam, sym, N, psi.pC), dict(kind='mid-sweep-state', family=fam, sym=sym, N=N, ops=mops))
                        break
                    if not np.isclose(psi.norm(), nv0, rtol=1e-9):
                        ctx.violation('norm() = %r with central block at %r; dense norm %r (%s %s N=%d after %r)' % (psi.norm(), psi.pC, nv0, fam, sym, N, mops),
                                      dict(kind='mid-sweep-norm', family=fam, sym=sym, N=N, ops=mops))
                        break
                    if not is_mpo and N >= 2 and rng.random() < 0.3:
                        d = sum(ops.space().D)
                        T = (v0 / nv0).reshape([d] * N)
                        sv = psi.get_Schmidt_values()
                        ent = psi.get_entropy()
                        cut = rng.randint(1, N - 1)
                        ref = np.linalg.svd(T.reshape(d ** cut, -1), compute_uv=False)
                        ref = ref[ref > 1e-12]
                        got = np.sort(np.real(sv[cut]._data))[::-1]
                        got = got[got > 1e-12]
                        ctx.count('mid-sweep schmidt')
                        if len(got) != len(ref) or not np.allclose(got, ref, atol=1e-8) or not np.isclose(ent[cut], -np.sum(ref ** 2 * np.log2(ref ** 2)), atol=1e-7):
                            ctx.violation('Schmidt values / entropy at cut %d with central block at %r differ from the dense state (%s %s N=%d after %r)' % (cut, psi.pC, fam, sym, N, mops),
                                          dict(kind='mid-sweep-schmidt', family=fam, sym=sym, N=N, ops=mops))
                            break
            except (yastn.YastnError, ValueError, KeyError, IndexError, ZeroDivisionError) as e:
                ctx.violation('observing the state with central block at %r raised %s: %s (%s %s N=%d after %r)' % (psi.pC, type(e).__name__, str(e)[:100], fam, sym, N, mops),
                              dict(kind='mid-sweep-crash', family=fam, sym=sym, N=N, ops=mops))
                break
        jobs.append((OP_CANON, [N, mops]))
        src.append((dict(kind='gauge-trace', family=fam, sym=sym, N=N, mpo=is_mpo, ops=mops), impl, psi))
        ctx.case(src[-1][0], nontrivial=N >= 2)
    bad = []
    if st['model_ok'] and jobs:
        mo = vlib.run_model(jobs)
        for (desc, impl, psi), m in zip(src, mo):
            if len(m) != len(impl):
                bad.append(dict(desc=desc, why='trace length', model=len(m), impl=len(impl)))
                continue
            for step, (a, b) in enumerate(zip(m, impl)):
                if (a == -1) != (b == -1):
                    bad.append(dict(desc=desc, step=step, why='refusal differs', model=a, impl=b))
                    break
                if a != -1 and a[0] != b[0]:
                    bad.append(dict(desc=desc, step=step, why='position of the central block differs', model=a[0], impl=b[0]))
                    break
            else:
                # final flags of the model must hold on the real object
                last = [x for x in m if x != -1]
                if last and psi.pC is None:
                    why = flags_ok(psi, last[-1][1])
                    if why:
                        ctx.violation('after %r: %s although the gauge model says so (%s %s N=%d)' % (desc['ops'], why, desc['family'], desc['sym'], desc['N']), dict(desc, kind='flags'))
        ok, idx, ns = vlib.coq_sample('C08', [(op, arg, out) for (op, arg), out in list(zip(jobs, mo))[:60]])
        ctx.extra['coq_vm_sample'] = dict(n=ns, mismatches=len(idx), ok=ok)
        if not ok and not bad:
            ctx.broken.append('in-Coq vm_compute sample disagrees with the extracted driver at %r' % idx[:5])
    ctx.extra['trace_correspondence'] = dict(traces=len(jobs), disagreements=len(bad))
    return bad


def numeric(ctx, quick):
    import yastn, yastn.tn.mps as mps, mgen
    rng = ctx.rng
    for k in range(70 if quick else 1200):
        fam, sym = rng.choice(mgen.FAMILIES)
        ops = mgen.operators(fam, sym)
        N = rng.randint(1, 6 if sum(ops.space().D) <= 2 else 4)
        is_mpo = rng.random() < 0.25
        try:
            psi0 = mgen.int_mps(rng, ops, N, D_total=rng.randint(2, 6), n=rng.choice(mgen.admissible_charges(ops, N)), cplx=rng.random() < 0.3) if not is_mpo \
                else mgen.int_mps(rng, ops, N, D_total=3, nr_phys=2)
        except Exception:
            continue
        generic = rng.random() < 0.6      # otherwise small-integer data: rank-deficient bonds and degenerate Schmidt spectra are common
        if generic:
            for n_ in range(N):
                psi0[n_]._data = psi0[n_]._data + 0.25 * np.sin(1.0 + np.arange(psi0[n_].size) * (n_ + 1))
        ctx.count('generic-data' if generic else 'integer-data(rank-deficient/degenerate)')
        if rng.random() < 0.3:
            psi0 = rng.choice([2.5, -0.5]) * psi0
        if rng.random() < 0.3:      # amplitude carried by one site tensor, over many orders of magnitude
            n_ = rng.randrange(N)
            sc = rng.choice([3e-14, 1e-9, 1e-5, 1e6, 1e13])
            psi0[n_] = sc * psi0[n_]
            ctx.count('site-scale:%g' % sc)
        v0 = mgen.dense_state(psi0, ops).reshape(-1)
        nv0 = np.linalg.norm(v0)
        if nv0 == 0:
            continue
        desc0 = dict(family=fam, sym=sym, N=N, mpo=is_mpo, rep=k)
        scale = nv0

        def close(a, b, tol=1e-9):
            return np.allclose(a, b, rtol=tol, atol=tol * scale)
        # canonize_ in alternating directions, normalize False / True
        psi = psi0.copy()
        dirs = [rng.choice(['first', 'last']) for _ in range(rng.randint(1, 4))]
        for to in dirs:
            psi.canonize_(to=to, normalize=False)
            v = mgen.dense_state(psi, ops).reshape(-1)
            ctx.count('canonize(normalize=False)')
            if not close(v, v0):
                ctx.violation('canonize_(to=%s, normalize=False) changed the state (%s %s N=%d)' % (to, fam, sym, N), dict(desc0, kind='canonize-state', dirs=dirs))
                break
            if not psi.is_canonical(to=to, tol=1e-9):
                ctx.violation('after canonize_(to=%s) the chain is not canonical' % to, dict(desc0, kind='canonize-iso', dirs=dirs))
                break
            if not np.isclose(psi.factor, nv0, rtol=1e-9):
                ctx.violation('canonize_(normalize=False): factor %r is not the norm %r' % (psi.factor, nv0), dict(desc0, kind='canonize-factor'))
                break
        psi = psi0.copy()
        psi.canonize_(to=rng.choice(['first', 'last']), normalize=True)
        v = mgen.dense_state(psi, ops).reshape(-1)
        if not (np.isclose(np.linalg.norm(v), 1.0, rtol=1e-9) and close(v * nv0, v0)):
            ctx.violation('canonize_(normalize=True) does not give the normalised state (%s %s N=%d)' % (fam, sym, N), dict(desc0, kind='canonize-normalised'))
        # norm(), Schmidt values and entropies vs the dense state (MPS only)
        ctx.case(dict(desc0, kind='canonical-numeric'), nontrivial=True)
        if not np.isclose(psi0.norm(), nv0, rtol=1e-9):
            ctx.violation('norm() = %r differs from the dense norm %r (%s %s N=%d)' % (psi0.norm(), nv0, fam, sym, N), dict(desc0, kind='norm'))
        # neighbouring tensors that disagree on the sectors of their common bond (a window of charges projected out on one side): every tensor is
        # still an isometry on its own, the state lost weight
        if sym != 'dense' and N >= 2:
            for to in ('first', 'last'):
                phi = psi0.copy()
                phi.canonize_(to=to, normalize=False)
                m = rng.randint(1, N - 1)
                ax = 0 if to == 'first' else 2          # the bond between m-1 and m, seen from the tensor that stays an isometry
                site = m if to == 'first' else m - 1
                lg = phi[site].get_legs(ax)
                if len(lg.t) >= 2:
                    keep = sorted(rng.sample(range(len(lg.t)), rng.randint(1, len(lg.t) - 1)))
                    sub = yastn.Leg(phi.config, s=lg.s, t=[lg.t[i] for i in keep], D=[lg.D[i] for i in keep])
                    P = yastn.eye(phi.config, legs=[sub, sub.conj()], isdiag=False)
                    A = phi[site]
                    phi[site] = yastn.tensordot(P, A, axes=(1, 0)) if ax == 0 else yastn.tensordot(A, P, axes=(2, 1)) if A.ndim == 3 else \
                        yastn.tensordot(A, P, axes=(2, 1)).transpose(axes=(0, 1, 3, 2))
                    w = mgen.dense_state(phi, ops).reshape(-1)
                    ctx.count('sector-window')
                    # rounding is relative to the norm BEFORE the projection (scale): eps * scale for a norm obtained by QR sweeps, eps * scale^2 for the
                    # overlap, i.e. sqrt(eps) * scale for its square root when almost nothing survives the projection
                    nw_ = float(np.linalg.norm(w))
                    for nm, val, tol_ in (('norm()', phi.norm(), 1e-9 * scale), ('sqrt(vdot(psi, psi))', abs(mps.vdot(phi, phi)) ** 0.5, None),
                                          ('factor after canonize_(normalize=False)', phi.copy().canonize_(to=to, normalize=False).factor, 1e-9 * scale)):
                        ok_ = abs(val ** 2 - nw_ ** 2) <= 1e-9 * scale ** 2 if tol_ is None else abs(val - nw_) <= max(tol_, 1e-9 * nw_)
                        if not ok_:
                            ctx.violation('%s = %r differs from the dense norm %r (norm before the projection %r) for a chain whose tensors %d and %d carry different sectors on their bond (%s %s N=%d, canonical to %s)' % (
                                nm, val, np.linalg.norm(w), scale, m - 1, m, fam, sym, N, to), dict(desc0, kind='sector-window', to=to, m=m, keep=keep))
                            break
        if not is_mpo and N >= 2:
            d = sum(ops.space().D)
            T = (v0 / nv0).reshape([d] * N)
            sv = psi0.get_Schmidt_values()
            ent = psi0.get_entropy()
            for cut in range(1, N):
                ref = np.linalg.svd(T.reshape(d ** cut, -1), compute_uv=False)
                ref = np.sort(ref[ref > 1e-12])[::-1]
                got = np.sort(np.real(sv[cut]._data))[::-1] if hasattr(sv[cut], '_data') else None
                got = got[got > 1e-12]
                ctx.count('schmidt-cut')
                if len(got) != len(ref) or not np.allclose(got, ref, atol=1e-8):
                    ctx.violation('Schmidt values across cut %d differ from numpy SVD of the dense state (%s %s N=%d)' % (cut, fam, sym, N), dict(desc0, kind='schmidt', cut=cut))
                    break
                e_ref = -np.sum(ref ** 2 * np.log2(ref ** 2))
                if not np.isclose(ent[cut], e_ref, atol=1e-7):
                    ctx.violation('entropy across cut %d = %r differs from the dense value %r' % (cut, ent[cut], e_ref), dict(desc0, kind='entropy', cut=cut))
                    break
        # one cut: diagonalize_central_ keeps the largest Schmidt values, reports the weight of the rest
        if not is_mpo and N >= 2:
            cut = rng.randint(1, N - 1)
            psi = psi0.copy()
            psi.canonize_(to='first', normalize=False)
            for n_ in range(cut):
                psi.orthogonalize_site_(n=n_, to='last', normalize=False)
                if n_ < cut - 1:
                    psi.absorb_central_(to='last')
            ref = np.linalg.svd(T.reshape(d ** cut, -1), compute_uv=False)
            ref = ref[ref > 1e-12]
            if len(ref) >= 2:
                Dcut = rng.randint(1, len(ref) - 1)
                gap = ref[Dcut - 1] - ref[Dcut]
                psi_n = psi.copy()          # the same move with normalize=True: the accumulated norm is dropped, everything else is the same
                disc_n = psi_n.diagonalize_central_(opts_svd={'D_total': Dcut, 'tol': 1e-13}, normalize=True)
                disc = psi.diagonalize_central_(opts_svd={'D_total': Dcut, 'tol': 1e-13}, normalize=False)
                ctx.count('single-cut truncation:normalize=True')
                vn = mgen.dense_state(psi_n, ops).reshape(-1)
                vu = mgen.dense_state(psi, ops).reshape(-1)
                if not (psi_n.factor == 1 and np.isclose(np.linalg.norm(vn), 1.0, rtol=1e-8) and np.isclose(disc_n, disc, atol=1e-10) and close(vn * np.linalg.norm(vu), vu, 1e-8)):
                    ctx.violation('diagonalize_central_(D_total=%d, normalize=True) at cut %d of a state of norm %r: factor %r, norm %r, discarded %r; with normalize=False: norm %r, discarded %r (%s %s N=%d)' % (
                        Dcut, cut, nv0, psi_n.factor, np.linalg.norm(vn), disc_n, np.linalg.norm(vu), disc, fam, sym, N), dict(desc0, kind='single-cut-normalize', cut=cut, D_total=Dcut))
                kept = np.sort(np.real(psi.A[psi.pC]._data))[::-1]
                ctx.count('single-cut truncation')
                if gap > 1e-7:      # a degenerate multiplet at the cut may be kept whole or split by policy: only the weight is then checked
                    want = ref[:Dcut] / np.linalg.norm(ref[:Dcut])
                    if len(kept) != Dcut or not np.allclose(kept, want, atol=1e-8):
                        ctx.violation('diagonalize_central_(D_total=%d) at cut %d keeps %r, the largest Schmidt values are %r (%s %s N=%d)' % (
                            Dcut, cut, kept.tolist(), want.tolist(), fam, sym, N), dict(desc0, kind='single-cut-kept', cut=cut, D_total=Dcut))
                    if not np.isclose(disc, np.linalg.norm(ref[Dcut:]), atol=1e-8):
                        ctx.violation('diagonalize_central_(D_total=%d) at cut %d reports %r, the discarded Schmidt weight is %r' % (Dcut, cut, disc, np.linalg.norm(ref[Dcut:])),
                                      dict(desc0, kind='single-cut-weight', cut=cut, D_total=Dcut))
                    if not np.isclose(psi.factor, nv0 * np.linalg.norm(ref[:Dcut]), rtol=1e-8):
                        ctx.violation('diagonalize_central_(normalize=False): factor %r, expected %r' % (psi.factor, nv0 * np.linalg.norm(ref[:Dcut])),
                                      dict(desc0, kind='single-cut-factor', cut=cut, D_total=Dcut))
        # truncation: non-binding leaves the state; binding reports the true relative error
        for to in ('last', 'first'):
            opp = 'first' if to == 'last' else 'last'
            for normalize in (False, True):
                psi = psi0.copy()
                prep = rng.choice(['opposite', 'opposite', 'as-is', 'same-direction'])     # a non-binding sweep is harmless in any gauge
                if prep != 'as-is':
                    psi.canonize_(to=opp if prep == 'opposite' else to, normalize=False)
                ctx.count('truncate:nonbinding:prepared-' + prep)
                disc = psi.truncate_(to=to, opts_svd={'tol': 1e-14}, normalize=normalize)
                v = mgen.dense_state(psi, ops).reshape(-1)
                ctx.count('truncate:nonbinding')
                okst = close(v, v0, 1e-8) if not normalize else (np.isclose(np.linalg.norm(v), 1.0, rtol=1e-8) and close(v * nv0, v0, 1e-8))
                if not okst or disc > 1e-7:
                    ctx.violation('truncate_(to=%s, normalize=%s) with non-binding limits changed the state or reported %r (%s %s N=%d)' % (to, normalize, disc, fam, sym, N),
                                  dict(desc0, kind='truncate-nonbinding', to=to, normalize=normalize))
                if N >= 2:
                    Dmax = max(psi0.get_bond_dimensions())
                    if Dmax >= 2:
                        psi = psi0.copy()
                        psi.canonize_(to=opp, normalize=False)
                        Dcut = rng.randint(1, Dmax - 1)
                        # every documented way of saying it; a partial-SVD policy must not change what is reported
                        osvd = rng.choice([{'D_total': Dcut}, {'D_total': Dcut}, {'D_total': Dcut, 'D_block': Dcut, 'policy': 'lowrank'},
                                           {'D_total': Dcut, 'D_block': max(1, Dcut - 1), 'policy': 'lowrank'}, {'D_total': Dcut, 'tol': 1e-3}, {'D_total': Dcut, 'tol_block': 1e-3}])
                        ctx.count('truncate:opts:' + '+'.join(sorted(osvd)))
                        disc = psi.truncate_(to=to, opts_svd=osvd, normalize=normalize)
                        v = mgen.dense_state(psi, ops).reshape(-1)
                        ctx.count('truncate:binding')
                        if normalize:
                            # the normalised truncated state is the direction of the projection: sin of the angle to the original
                            true = np.linalg.norm(v0 / nv0 - v * np.vdot(v, v0 / nv0))
                            if not np.isclose(np.linalg.norm(v), 1.0, rtol=1e-8):
                                ctx.violation('truncate_(normalize=True) left norm %r' % np.linalg.norm(v), dict(desc0, kind='truncate-norm', to=to))
                        else:
                            true = np.linalg.norm(v0 - v) / nv0
                        if not np.isclose(disc, true, rtol=1e-6, atol=1e-8):
                            ctx.violation('truncate_(to=%s, opts_svd=%r, normalize=%s) reports discarded weight %r, the true relative distance is %r (%s %s N=%d)' % (
                                to, osvd, normalize, disc, true, fam, sym, N), dict(desc0, kind='truncate-error', to=to, normalize=normalize, D_total=Dcut, opts_svd=osvd))
                        if max(psi.get_bond_dimensions()) > Dcut:
                            ctx.violation('truncate_(D_total=%d) left a bond of dimension %d' % (Dcut, max(psi.get_bond_dimensions())), dict(desc0, kind='truncate-limit'))


def gauge_correspondence(ctx, st, quick):
    """(a) exact: an integer central block on a bond of an integer MPS, absorbed by the REAL absorb_central_ into either neighbour, vs the model's explicit
    central site and its absorb_right / absorb_left (opcode 82), amplitude by amplitude; (b) the premise of the gauge theorems on every real
    orthogonalize_site_: old site tensor = Q . (nR C) resp. (nR C) . Q blockwise, nR = growth of the prefactor"""
    import itertools, yastn, yastn.tn.mps as mps, mgen, tgen
    rng = ctx.rng
    jobs, src = [], []
    for rep in range(40 if quick else 500):
        fam, sym = rng.choice(mgen.FAMILIES)
        ops = mgen.operators(fam, sym)
        N = rng.randint(2, 4)
        try:
            psi = mgen.int_mps(rng, ops, N, D_total=rng.randint(1, 4), n=rng.choice(mgen.admissible_charges(ops, N)))
        except Exception:
            continue
        if psi.virtual_leg('first').D != (1,) or psi.virtual_leg('last').D != (1,):
            continue
        k = rng.randint(0, N - 2)
        lA, lB = psi[k].get_legs(2).conj(), psi[k + 1].get_legs(0).conj()
        try:
            C = yastn.rand(psi.config, legs=[lA, lB])
        except yastn.YastnError:
            continue
        if C.size == 0:
            continue
        tgen.int_fill(rng, C, lo=-2, hi=2)
        to_last = rng.random() < 0.5
        # bond spaces: the union of what both sides report (the two sides of C are different spaces)
        sp = ops.space()
        LA = yastn.legs_union(psi[k].get_legs(2), C.get_legs(0).conj())
        LB = yastn.legs_union(C.get_legs(1).conj(), psi[k + 1].get_legs(0))
        sites = []
        for i in range(N):
            lg = {1: sp}
            if i > 0:
                lg[0] = LB if i == k + 1 else yastn.legs_union(psi[i - 1].get_legs(2).conj(), psi[i].get_legs(0))
            if i < N - 1:
                lg[2] = LA if i == k else yastn.legs_union(psi[i].get_legs(2), psi[i + 1].get_legs(0).conj())
            d = psi[i].to_numpy(legs=lg)
            sites.append([int(d.shape[2]), [[[int(x) for x in row] for row in d[:, s_, :]] for s_ in range(d.shape[1])]])
        Cm = C.to_numpy(legs={0: LA.conj(), 1: LB.conj()})
        dloc = sum(sp.D)
        sigmas = [list(s_) for s_ in itertools.product(range(dloc), repeat=N)]
        if len(sigmas) > 80:
            sigmas = [sigmas[i] for i in sorted(rng.sample(range(len(sigmas)), 80))]
        phi = psi.shallow_copy()
        phi.A[(k, k + 1)] = C
        phi.pC = (k, k + 1)
        phi.absorb_central_(to='last' if to_last else 'first')
        dn = mgen.dense_state(phi, ops)
        impl = [[int(dn[tuple(s_)])] * 2 for s_ in sigmas]
        desc = dict(kind='central-block', family=fam, sym=sym, N=N, bond=k, to='last' if to_last else 'first', rep=rep)
        jobs.append((OP_GAUGE, [sites, [[int(x) for x in row] for row in Cm], int(Cm.shape[1]), k, int(to_last), sigmas]))
        src.append((desc, impl))
        ctx.case(desc, nontrivial=True)
        ctx.count('central-block:' + ('last' if to_last else 'first'))
    bad = []
    if st['model_ok'] and jobs:
        mo = vlib.run_model(jobs, shards=8)
        for (desc, impl), m in zip(src, mo):
            if m != impl:
                i = next(i for i, (u, v) in enumerate(zip(m, impl)) if u != v)
                bad.append(dict(desc=desc, first=dict(model_explicit_and_absorbed=m[i], impl_after_absorb_central=impl[i])))
        small = [(op, arg, out) for (op, arg), out in zip(jobs, mo) if len(vlib.to_sx(arg)) < 3000][:8]
        ok, idx, ns = vlib.coq_sample('C08g', small)
        ctx.extra['coq_vm_sample_gauge'] = dict(n=ns, mismatches=len(idx), ok=ok)
        if not ok and not bad:
            ctx.broken.append('in-Coq vm_compute sample (gauge) disagrees with the extracted driver at %r' % idx[:5])
    ctx.extra['gauge_correspondence'] = dict(cases=len(jobs), disagreements=len(bad))
    # (b) premise of the theorems on real QR moves
    for rep in range(40 if quick else 500):
        fam, sym = rng.choice(mgen.FAMILIES)
        ops = mgen.operators(fam, sym)
        N = rng.randint(2, 5)
        is_mpo = rng.random() < 0.3
        try:
            psi = mgen.int_mps(rng, ops, N, D_total=rng.randint(2, 5), n=rng.choice(mgen.admissible_charges(ops, N)), cplx=rng.random() < 0.3) if not is_mpo \
                else mgen.int_mps(rng, ops, N, D_total=3, nr_phys=2)
        except Exception:
            continue
        for n_ in range(N):
            psi[n_]._data = psi[n_]._data + 0.25 * np.sin(1.0 + np.arange(psi[n_].size) * (n_ + 1))
        to = rng.choice(['first', 'last'])
        n = rng.randint(1, N - 1) if to == 'first' else rng.randint(0, N - 2)
        A0, f0 = psi[n], psi.factor
        psi.orthogonalize_site_(n, to=to, normalize=False)
        Q, C = psi[n], psi[psi.pC]
        nR = psi.factor / f0
        if to == 'last':
            QR = yastn.tensordot(Q, C, axes=(2, 0))
            if is_mpo:
                QR = QR.transpose(axes=(0, 1, 3, 2))
        else:
            QR = yastn.tensordot(C, Q, axes=(1, 0))
        ctx.count('premise:factorisation:' + to)
        err = float((A0 - nR * QR).norm())
        if err > 1e-11 * max(1.0, float(A0.norm())):
            ctx.violation('orthogonalize_site_(%d, to=%s): the old site tensor differs from Q . (nR C) by %.3g (%s %s N=%d %s) -- the premise of the gauge theorems fails' % (
                n, to, err, fam, sym, N, 'MPO' if is_mpo else 'MPS'), dict(kind='gauge-premise', family=fam, sym=sym, N=N, n=n, to=to, mpo=is_mpo, rep=rep))
    return bad


def run(ctx):
    st = vlib.prepare(ctx, PROP_V, need_translators=('tr_deleg',))
    quick = ctx.tier == 'quick'
    ctx.cov['rule'] = ('MPS and MPO of every operator family x symmetry, N = 1..6, generic float data, non-unit factors: random sequences of canonize_/orthogonalize_site_/'
                       'absorb_central_ in both directions (trace of pC and canonical flags vs the Coq gauge machine); integer central blocks absorbed by absorb_central_ vs the Coq '
                       'model of the move (exact); A = Q.R premise of the gauge theorems on real orthogonalize_site_ calls; dense state, isometries, factor, norm(), Schmidt values '
                       'and entropies across every cut vs numpy; truncate_ with non-binding and binding limits in both directions, normalize on/off, prepared in the opposite '
                       'canonical form. non-trivial = N >= 2; distinct by (family, symmetry, N, seed)')
    bad = trace_correspondence(ctx, st, quick)
    badg = gauge_correspondence(ctx, st, quick)
    numeric(ctx, quick)
    if badg and not ctx.violations:
        ctx.violation('central block / absorb_central_: model and implementation disagree: %r' % (badg[0],), dict(kind='correspondence', first=badg[:3]))
    if bad and not ctx.violations:
        ctx.violation('gauge state machine: model and implementation disagree: %r' % (bad[0],), dict(kind='correspondence', first=bad[:3]))
    if ctx.broken and not ctx.violations:
        ctx.violation('obligation or tie no longer checks: %s' % ctx.broken[0], dict(kind='obligation', broken=ctx.broken), found_input=False)
    return ctx.finish(level='proof', checker_cmd='make -C /verif/coq (coqc 8.16.1) + coqc properties/C08.v (Print Assumptions)',
                      assumptions=['QR/SVD per block meet their specifications (validated through the dense comparisons, tolerance 1e-8..1e-9 relative)'])


def replay(ctx, path):
    print(json.dumps(json.load(open(path)), indent=1)[:4000])
    return 0
