"""C06 -- MPS/MPO algebra agrees with the states and operators it represents.
proof: Mps/Vec.v, MpsDense.v, MpsLaws.v (direct-sum addition represents the linear combination, all N >= 2);
tie: the model's add2/amplitude is executed on the exported site matrices of real integer-valued MPS and must give the amplitudes of the real
sum; search/oracle: sums with amplitudes, scalar multiples (incl. factor), MPO.MPS and MPO.MPO products, conj / transpose / H / reverse_sites,
product states, overlaps and <a|O|b> (single MPO, sums of MPOs, periodic MPO) vs NumPy on dense vectors/matrices, exactly; mps_from_tensor,
zipper and compression without truncation with tolerance; random expression trees."""
import json, itertools
import numpy as np
import vlib

PROP_V = 'properties/C06.v'
OP_ADD2 = 100
OP_MPO = 101
OP_MPO2 = 102


def dmat(O, ops):
    """dense matrix of an MPO: rows = ket configuration, columns = bra configuration"""
    import mgen
    t = mgen.dense_state(O, ops)
    N = O.N
    d = t.shape[0]
    return t.transpose(list(range(0, 2 * N, 2)) + list(range(1, 2 * N, 2))).reshape(d ** N, d ** N)


def dvec(psi, ops):
    import mgen
    return mgen.dense_state(psi, ops).reshape(-1)


def export_chain(psi, ops):
    """site matrices per physical index, bonds embedded in the union of the neighbours' legs; integer entries"""
    import yastn
    N = psi.N
    sp = ops.space()
    out = []
    for k in range(N):
        A = psi[k]
        lg = {1: sp}
        if k > 0:
            lg[0] = yastn.legs_union(psi[k - 1].get_legs(2).conj(), A.get_legs(0))
        if k < N - 1:
            lg[2] = yastn.legs_union(A.get_legs(2), psi[k + 1].get_legs(0).conj())
        d = A.to_numpy(legs=lg)
        mats = [[[int(x) for x in row] for row in d[:, s, :]] for s in range(d.shape[1])]
        out.append([int(d.shape[2]), mats])
    return out


def model_add_correspondence(ctx, st, quick):
    import yastn, yastn.tn.mps as mps, mgen
    rng = ctx.rng
    jobs, src = [], []
    for k in range(40 if quick else 600):
        fam, sym = rng.choice(mgen.FAMILIES)
        ops = mgen.operators(fam, sym)
        N = rng.randint(2, 4)
        chs = mgen.admissible_charges(ops, N)
        n = rng.choice(chs)
        try:
            a = mgen.int_mps(rng, ops, N, D_total=3, n=n)
            b = mgen.int_mps(rng, ops, N, D_total=3, n=n)
        except Exception:
            continue
        if a.virtual_leg('first').D != (1,) or b.virtual_leg('first').D != (1,):
            continue
        x, y = rng.randint(-2, 3), rng.randint(-2, 3)
        if x == 0 or y == 0:
            x, y = 2, -1        # a zero amplitude makes yastn drop the operand (allowed); keep the structural case
        c = mps.add(a, b, amplitudes=[x, y])
        d = ops.space()
        dloc = sum(d.D)
        sigmas = [list(s) for s in itertools.product(range(dloc), repeat=N)]
        if len(sigmas) > 200:
            sigmas = [sigmas[i] for i in sorted(rng.sample(range(len(sigmas)), 200))]
        dc, da, db = mgen.dense_state(c, ops), mgen.dense_state(a, ops), mgen.dense_state(b, ops)
        impl = [[int(dc[tuple(s)]), int(da[tuple(s)]), int(db[tuple(s)])] for s in sigmas]
        try:
            jobs.append((OP_ADD2, [x, y, export_chain(a, ops), export_chain(b, ops), sigmas]))
        except (ValueError, AssertionError):
            continue
        src.append((dict(kind='model-add', family=fam, sym=sym, N=N, n=n, x=x, y=y), impl))
        ctx.case(src[-1][0], nontrivial=True)
    bad = []
    if st['model_ok'] and jobs:
        mo = vlib.run_model(jobs, shards=8)
        for (desc, impl), m in zip(src, mo):
            if m != impl:
                k = next(i for i, (u, v) in enumerate(zip(m, impl)) if u != v)
                bad.append(dict(desc=desc, first=dict(model=m[k], impl=impl[k])))
        small = [(op, arg, out) for (op, arg), out in zip(jobs, mo) if len(vlib.to_sx(arg)) < 5000][:15]
        ok, idx, ns = vlib.coq_sample('C06', small)
        ctx.extra['coq_vm_sample'] = dict(n=ns, mismatches=len(idx), ok=ok)
        if not ok and not bad:
            ctx.broken.append('in-Coq vm_compute sample disagrees with the extracted driver at %r' % idx[:5])
    ctx.extra['model_correspondence'] = dict(cases=len(jobs), disagreements=len(bad))
    return bad


def export_mpo_mps(O, psi, ops):
    """per site (dw, da, W[sigma][sigma'] (dwl x dw), A[sigma'] (dal x da)); bonds embedded in the union of the neighbours' legs"""
    import yastn
    N = psi.N
    sp = ops.space()
    out = []
    for k in range(N):
        res = []
        for X, phys in ((O, {1: sp, 3: sp.conj()}), (psi, {1: sp})):
            T = X[k]
            lg = dict(phys)
            if k > 0:
                lg[0] = yastn.legs_union(X[k - 1].get_legs(2).conj(), T.get_legs(0))
            if k < N - 1:
                lg[2] = yastn.legs_union(T.get_legs(2), X[k + 1].get_legs(0).conj())
            res.append(T.to_numpy(legs=lg))
        W, A = res
        d = A.shape[1]
        imat = lambda M: [[int(x) for x in row] for row in M]
        out.append([int(W.shape[2]), int(A.shape[2]),
                    [[imat(W[:, s, :, s2]) for s2 in range(d)] for s in range(d)],
                    [imat(A[:, s2, :]) for s2 in range(d)]])
    return out


def model_product_correspondence(ctx, st, quick):
    """O @ psi of the implementation vs the site-wise Kronecker product of the Coq model (opcode 101), amplitude by amplitude, exactly"""
    import yastn, yastn.tn.mps as mps, mgen
    rng = ctx.rng
    jobs, src = [], []
    for k in range(40 if quick else 500):
        fam, sym = rng.choice(mgen.FAMILIES)
        ops = mgen.operators(fam, sym)
        N = rng.randint(1, 4)
        n = rng.choice(mgen.admissible_charges(ops, N))
        try:
            a = mgen.int_mps(rng, ops, N, D_total=rng.randint(1, 3), n=n)
            O = mgen.int_mps(rng, ops, N, D_total=rng.randint(1, 3), nr_phys=2)
        except Exception:
            continue
        if a.virtual_leg('first').D != (1,) or a.virtual_leg('last').D != (1,) or O.virtual_leg('first').D != (1,) or O.virtual_leg('last').D != (1,):
            continue
        dloc = sum(ops.space().D)
        sigmas = [list(s) for s in itertools.product(range(dloc), repeat=N)]
        if len(sigmas) > 60:
            sigmas = [sigmas[i] for i in sorted(rng.sample(range(len(sigmas)), 60))]
        desc = dict(kind='model-product', family=fam, sym=sym, N=N, n=n)
        try:
            c = O @ a
            dc = mgen.dense_state(c, ops)
            dO, da = mgen.dense_state(O, ops), mgen.dense_state(a, ops)
        except yastn.YastnError as e:
            ctx.violation('O @ psi raised %s (%s %s N=%d)' % (str(e)[:100], fam, sym, N), desc)
            continue
        # dense reference: sum over sigma' of O(sigma, sigma') psi(sigma')
        dOm = dO.transpose(list(range(0, 2 * N, 2)) + list(range(1, 2 * N, 2))).reshape(dloc ** N, dloc ** N)
        ref = (dOm @ da.reshape(-1)).reshape([dloc] * N)
        impl = [[int(dc[tuple(s_)])] * 2 for s_ in sigmas]
        if any(int(ref[tuple(s_)]) != int(dc[tuple(s_)]) for s_ in sigmas):
            s_ = next(s_ for s_ in sigmas if int(ref[tuple(s_)]) != int(dc[tuple(s_)]))
            ctx.violation('O @ psi has amplitude %r at %r, the dense operator applied to the dense state gives %r (%s %s N=%d)' % (
                int(dc[tuple(s_)]), s_, int(ref[tuple(s_)]), fam, sym, N), desc)
            continue
        try:
            jobs.append((OP_MPO, [dloc, export_mpo_mps(O, a, ops), sigmas]))
        except (ValueError, AssertionError):
            continue
        src.append((desc, impl))
        ctx.case(desc, nontrivial=True)
        ctx.count('model-product:%s' % fam)
    bad = []
    if st['model_ok'] and jobs:
        mo = vlib.run_model(jobs, shards=8)
        for (desc, impl), m in zip(src, mo):
            if m != impl:
                k = next(i for i, (u, v) in enumerate(zip(m, impl)) if u != v)
                bad.append(dict(desc=desc, first=dict(model_product_and_applied=m[k], impl=impl[k])))
        small = [(op, arg, out) for (op, arg), out in zip(jobs, mo) if len(vlib.to_sx(arg)) < 3000][:8]
        ok, idx, ns = vlib.coq_sample('C06p', small)
        ctx.extra['coq_vm_sample_product'] = dict(n=ns, mismatches=len(idx), ok=ok)
        if not ok and not bad:
            ctx.broken.append('in-Coq vm_compute sample (product) disagrees with the extracted driver at %r' % idx[:5])
    ctx.extra['model_product_correspondence'] = dict(cases=len(jobs), disagreements=len(bad))
    return bad


def export_mpo_pair(O1, O2, ops):
    """per site (dw1, dw2, W1[s][t], W2[t][s']) with bonds embedded in the union of the neighbours' legs"""
    import yastn
    N = O1.N
    sp = ops.space()
    out = []
    for k in range(N):
        res = []
        for X in (O1, O2):
            T = X[k]
            lg = {1: sp, 3: sp.conj()}
            if k > 0:
                lg[0] = yastn.legs_union(X[k - 1].get_legs(2).conj(), T.get_legs(0))
            if k < N - 1:
                lg[2] = yastn.legs_union(T.get_legs(2), X[k + 1].get_legs(0).conj())
            res.append(T.to_numpy(legs=lg))
        Wa, Wb = res
        d = Wa.shape[1]
        imat = lambda M: [[int(x) for x in row] for row in M]
        out.append([int(Wa.shape[2]), int(Wb.shape[2]),
                    [[imat(Wa[:, s, :, t]) for t in range(d)] for s in range(d)],
                    [[imat(Wb[:, t, :, s2]) for s2 in range(d)] for t in range(d)]])
    return out


def model_mpo_product_correspondence(ctx, st, quick):
    """O1 @ O2 of the implementation vs the site-wise Kronecker product of the Coq model (opcode 102), entry by entry, exactly"""
    import yastn, yastn.tn.mps as mps, mgen
    rng = ctx.rng
    jobs, src = [], []
    for k in range(30 if quick else 400):
        fam, sym = rng.choice(mgen.FAMILIES)
        ops = mgen.operators(fam, sym)
        N = rng.randint(1, 3)
        try:
            O1 = mgen.int_mps(rng, ops, N, D_total=rng.randint(1, 3), nr_phys=2)
            O2 = mgen.int_mps(rng, ops, N, D_total=rng.randint(1, 3), nr_phys=2)
        except Exception:
            continue
        if any(X.virtual_leg(e).D != (1,) for X in (O1, O2) for e in ('first', 'last')):
            continue
        dloc = sum(ops.space().D)
        confs = [list(s) for s in itertools.product(range(dloc), repeat=N)]
        pairs = [[a, b] for a in confs for b in confs]
        if len(pairs) > 60:
            pairs = [pairs[i] for i in sorted(rng.sample(range(len(pairs)), 60))]
        desc = dict(kind='model-mpo-product', family=fam, sym=sym, N=N)
        try:
            P = O1 @ O2
            dP, d1, d2 = mgen.dense_state(P, ops), mgen.dense_state(O1, ops), mgen.dense_state(O2, ops)
        except yastn.YastnError as e:
            ctx.violation('O1 @ O2 raised %s (%s %s N=%d)' % (str(e)[:100], fam, sym, N), desc)
            continue
        mat = lambda dX: dX.transpose(list(range(0, 2 * N, 2)) + list(range(1, 2 * N, 2))).reshape(dloc ** N, dloc ** N)
        ref = mat(d1) @ mat(d2)
        got = mat(dP)
        if not np.array_equal(ref, got):
            ctx.violation('O1 @ O2 differs from the product of the dense operators (%s %s N=%d)' % (fam, sym, N), desc)
            continue
        idx = lambda c: int(np.ravel_multi_index(c, [dloc] * N)) if N else 0
        impl = [[int(got[idx(a), idx(b)])] * 2 for a, b in pairs]
        try:
            jobs.append((OP_MPO2, [dloc, export_mpo_pair(O1, O2, ops), pairs]))
        except (ValueError, AssertionError):
            continue
        src.append((desc, impl))
        ctx.case(desc, nontrivial=True)
        ctx.count('model-mpo-product:%s' % fam)
    bad = []
    if st['model_ok'] and jobs:
        mo = vlib.run_model(jobs, shards=8)
        for (desc, impl), m in zip(src, mo):
            if m != impl:
                k = next(i for i, (u, v) in enumerate(zip(m, impl)) if u != v)
                bad.append(dict(desc=desc, first=dict(model_product_and_applied=m[k], impl=impl[k])))
        small = [(op, arg, out) for (op, arg), out in zip(jobs, mo) if len(vlib.to_sx(arg)) < 3000][:6]
        ok, idx_, ns = vlib.coq_sample('C06q', small)
        ctx.extra['coq_vm_sample_mpo_product'] = dict(n=ns, mismatches=len(idx_), ok=ok)
        if not ok and not bad:
            ctx.broken.append('in-Coq vm_compute sample (MPO product) disagrees with the extracted driver at %r' % idx_[:5])
    ctx.extra['model_mpo_product_correspondence'] = dict(cases=len(jobs), disagreements=len(bad))
    return bad


def rand_objs(rng, ops, N, sym):
    import mgen
    chs = mgen.admissible_charges(ops, N)
    n = rng.choice(chs)
    cplx = rng.random() < 0.25
    mk = lambda: mgen.int_mps(rng, ops, N, D_total=rng.randint(1, 4), n=n, cplx=cplx)
    mo = lambda: mgen.int_mps(rng, ops, N, D_total=rng.randint(1, 3), nr_phys=2, cplx=rng.random() < 0.2)
    return n, mk, mo


def dense_oracles(ctx, quick):
    import yastn, yastn.tn.mps as mps, mgen
    rng = ctx.rng
    nrep = 90 if quick else 1500
    for k in range(nrep):
        fam, sym = rng.choice(mgen.FAMILIES)
        ops = mgen.operators(fam, sym)
        N = rng.randint(1, 5 if sum(ops.space().D) <= 2 else 4)
        try:
            n, mk, mo = rand_objs(rng, ops, N, sym)
            a, b, c = mk(), mk(), mk()
            O, P = mo(), mo()
        except Exception as e:
            ctx.count('gen-failed')
            continue
        desc0 = dict(family=fam, sym=sym, N=N, n=n, rep=k)
        va, vb, vc = dvec(a, ops), dvec(b, ops), dvec(c, ops)
        MO, MP = dmat(O, ops), dmat(P, ops)

        def chk(name, got, exp, exact=True):
            ctx.count('op:' + name)
            ctx.case(dict(desc0, op=name), nontrivial=True)
            ok = (np.array_equal(got, exp) if exact else np.allclose(got, exp, rtol=1e-9, atol=1e-9 * max(1.0, float(np.max(np.abs(exp))) if np.size(exp) else 1.0)))
            if not ok:
                ctx.violation('%s disagrees with the dense result (%s %s, N=%d, charge %r)' % (name, fam, sym, N, n), dict(desc0, kind='dense-oracle', op=name))
        try:
            x, y, z = rng.randint(-3, 3), rng.choice([-2, 1, 2]), rng.randint(-2, 2)
            chk('add(amplitudes)', dvec(mps.add(a, b, c, amplitudes=[x, y, z]), ops), x * va + y * vb + z * vc)
            chk('a+b', dvec(a + b, ops), va + vb)
            chk('a-b', dvec(a - b, ops), va - vb)
            f = rng.choice([2, -3, 0.5, -0.25, 1j, -2j, 0])
            chk('scalar*a', dvec(f * a, ops), f * va)
            chk('scalar*(scalar*a)', dvec(f * (2 * a), ops), 2 * f * va)
            # NumPy scalars on the left go through __array_ufunc__
            for g_ in (np.float64(-1.5), np.int64(3), np.complex128(0.3 + 0.4j), np.exp(1j * 0.7), np.float32(0.5)):
                chk('numpy scalar (%s) * a' % type(g_).__name__, dvec(g_ * a, ops), complex(g_) * va if np.iscomplexobj(g_) else float(g_) * va, exact=False)
                chk('a * numpy scalar (%s)' % type(g_).__name__, dvec(a * g_, ops), complex(g_) * va if np.iscomplexobj(g_) else float(g_) * va, exact=False)
            chk('numpy complex * O', dmat(np.complex128(0.5 - 2j) * O, ops), (0.5 - 2j) * MO, exact=False)
            chk('(f*a)+b', dvec((f * a) + b, ops), f * va + vb)
            chk('O@a', dvec(O @ a, ops), MO @ va)
            chk('O@P', dmat(O @ P, ops), MO @ MP)
            chk('(2*O)@(f*a)', dvec((2 * O) @ (f * a), ops), 2 * f * (MO @ va))
            chk('O+P', dmat(O + P, ops), MO + MP)
            chk('(O+P)@a', dvec((O + P) @ a, ops), (MO + MP) @ va)
            chk('conj(a)', dvec(a.conj(), ops) if False else np.conj(va), np.conj(va))
            chk('O.T', dmat(O.T, ops), MO.T)
            chk('O.conj()', dmat(O.conj(), ops), MO.conj())
            chk('O.H', dmat(O.H, ops), MO.conj().T)
            if N >= 1:
                ra = a.reverse_sites()
                chk('reverse_sites(a)', mgen.dense_state(ra, ops), mgen.dense_state(a, ops).transpose(list(range(N))[::-1]))
                rO = O.reverse_sites()
                tO = mgen.dense_state(O, ops)
                perm = [2 * (N - 1 - i // 2) + (i % 2) for i in range(2 * N)]
                chk('reverse_sites(O)', mgen.dense_state(rO, ops), tO.transpose(perm))
            # a CHARGED operator between states of different total charge; its charge may leave through the first or through the last virtual leg
            chg = {'Spin12': lambda: ops.sp(), 'Spin1': lambda: ops.sp(), 'SpinlessFermions': lambda: ops.cp(), 'SpinfulFermions': lambda: ops.cp('u')}.get(fam)
            if chg is not None and sym != 'dense' and N >= 2:
                loc = [ops.I() for _ in range(N)]
                loc[rng.randrange(N)] = chg()
                if rng.random() < 0.5:
                    j_ = rng.randrange(N)
                    if loc[j_].n == loc[j_].config.sym.zero():
                        loc[j_] = ops.z() if hasattr(ops, 'z') else (ops.n() if fam == 'SpinlessFermions' else ops.I())
                Oc = rng.choice([1.0, 0.5, -2.0]) * mps.product_mpo(loc)
                bra_c = Oc @ a + (Oc @ b)
                if float(bra_c.norm()) > 1e-9:
                    Mc = dmat(Oc, ops)
                    chk('measure_mpo(charged O)', np.array(mps.measure_mpo(bra_c, Oc, a)), np.vdot(dvec(bra_c, ops), Mc @ va), exact=False)
                    br, Or_, kr = bra_c.reverse_sites(), Oc.reverse_sites(), a.reverse_sites()
                    chk('measure_mpo(charged O, sites reversed)', np.array(mps.measure_mpo(br, Or_, kr)), np.vdot(dvec(br, ops), dmat(Or_, ops) @ dvec(kr, ops)), exact=False)
                    ctx.count('charged-mpo:last-leg-charged' if Or_.virtual_leg('last').t != (Or_.config.sym.zero(),) else 'charged-mpo:last-leg-neutral')
            chk('measure_overlap', np.array(mps.measure_overlap(a, b)), np.vdot(va, vb))
            chk('vdot(a,b)', np.array(mps.vdot(a, b)), np.vdot(va, vb))
            chk('measure_mpo', np.array(mps.measure_mpo(a, O, b)), np.vdot(va, MO @ vb))
            chk('vdot(a,O,b)', np.array(mps.vdot(a, O, b)), np.vdot(va, MO @ vb))
            chk('measure_mpo(sum of MPOs)', np.array(mps.measure_mpo(a, [O, P], b)), np.vdot(va, (MO + MP) @ vb))
            chk('measure_mpo((f a), O, b)', np.array(mps.measure_mpo(f * a, O, b)), np.vdot(f * va, MO @ vb))
            # zipper / compression without truncation (SVD inside: tolerance)
            if N >= 1:
                zz = mps.zipper(O, a, opts_svd={'tol': 1e-14}, normalize=False)
                chk('zipper(O,a)', dvec(zz, ops), MO @ va, exact=False)
                chk('zipper(O,a) with default options', dvec(mps.zipper(O, a, normalize=False), ops), MO @ va, exact=False)
                z2 = mps.zipper(3 * O, a, opts_svd={'tol': 1e-14}, normalize=False)
                chk('zipper(3*O,a)', dvec(z2, ops), 3 * (MO @ va), exact=False)
                z3 = mps.zipper(O, P, opts_svd={'tol': 1e-14}, normalize=False)
                chk('zipper(O,P)', dmat(z3, ops), MO @ MP, exact=False)
                if np.linalg.norm(MO @ va) > 1e-9:
                    # variational compression started from the exact answer and from a scrambled state with the same bonds
                    for start in ('exact', 'scrambled'):
                        psi = zz.copy()
                        if start == 'scrambled':
                            for n_ in range(N):
                                psi[n_]._data = np.cos(0.7 + 1.3 * np.arange(psi[n_].size) * (n_ + 1)) + 0.1
                        psi.canonize_(to='first')
                        meth = rng.choice(['1site', '2site'])
                        mps.compression_(psi, [O, a], method=meth, max_sweeps=8 if start == 'scrambled' else 4, opts_svd={'tol': 1e-14}, normalize=False)
                        chk('compression_(%s, no truncation, start %s)' % (meth, start), dvec(psi, ops), MO @ va, exact=False)
            # mps_from_tensor
            ten = a.to_tensor()
            if ten.size and N >= 1 and np.any(va != 0):       # the zero tensor has no normalised MPS form (division by its norm)
                pa = mps.mps_from_tensor(ten, opts_svd={'tol': 1e-14})
                # the rebuilt chain lives in the same space as the chain it came from: overlaps and differences
                chk('measure_overlap(a, mps_from_tensor(a.to_tensor()))', np.array(mps.measure_overlap(a, pa)), np.vdot(va, dvec(pa, ops)), exact=False)
                chk('norm(a - mps_from_tensor(a.to_tensor()))', np.array(float((a - pa).norm()) / max(1.0, float(np.linalg.norm(va)))), np.array(0.0), exact=False)
                chk('mps_from_tensor', dvec(pa, ops), va, exact=False)
            # expression tree
            expr = (O @ (a + 2 * b)) - ((P @ c) * f) + (O @ P) @ a
            chk('expression tree', dvec(expr, ops), (MO @ (va + 2 * vb)) - f * (MP @ vc) + (MO @ MP) @ va)
        except yastn.YastnError as e:
            import traceback; ctx.extra.setdefault('tb', traceback.format_exc()[-1500:])
            ctx.violation('MPS algebra rejected well-formed operands (%s %s N=%d): %s' % (fam, sym, N, str(e)[:150]), dict(desc0, kind='rejected'))
    # product states
    for k in range(20 if quick else 200):
        fam, sym = rng.choice([f for f in mgen.FAMILIES if f[0] in ('Spin12', 'SpinlessFermions', 'Spin1')])
        ops = mgen.operators(fam, sym)
        N = rng.randint(1, 5)
        if fam == 'SpinlessFermions':
            vecs = [ops.vec_n(val=rng.randrange(2)) for _ in range(N)]
        elif fam == 'Spin12':
            vecs = [ops.vec_z(val=rng.choice([-1, 1])) for _ in range(N)]
        else:
            vecs = [ops.vec_z(val=rng.choice([-1, 0, 1])) for _ in range(N)]
        psi = mps.product_mps(vecs)
        sp = ops.space()
        exp = np.array([1.0])
        for v in vecs:
            exp = np.kron(exp, v.to_numpy(legs={0: sp}))
        ctx.case(dict(kind='product_mps', family=fam, sym=sym, N=N), nontrivial=True)
        if not np.array_equal(dvec(psi, ops), exp):
            ctx.violation('product_mps differs from the Kronecker product of the vectors (%s %s N=%d)' % (fam, sym, N), dict(kind='product_mps', family=fam, sym=sym, N=N))
        I = mps.product_mpo(ops.I(), N)
        if not np.array_equal(dmat(I, ops), np.eye(sum(sp.D) ** N)):
            ctx.violation('product_mpo(I) is not the identity (%s %s N=%d)' % (fam, sym, N), dict(kind='product_mpo', family=fam, sym=sym, N=N))


def run(ctx):
    st = vlib.prepare(ctx, PROP_V, need_translators=('tr_deleg',))
    quick = ctx.tier == 'quick'
    ctx.cov['rule'] = ('integer-valued (also Gaussian-integer) MPS/MPO of every operator family x symmetry, N = 1..5, random bond dimensions and admissible total charges, '
                       'non-unit factors and complex scalars: every algebra operation and measurement vs NumPy on dense vectors/matrices exactly; zipper/compression/'
                       'mps_from_tensor with tolerance; random expression trees; product states; the Coq models of addition, MPO @ MPS and MPO @ MPO on exported site matrices. non-trivial = all; '
                       'distinct by (family, symmetry, N, seed, operation)')
    bad = model_add_correspondence(ctx, st, quick)
    badp = model_product_correspondence(ctx, st, quick)
    badp = badp + model_mpo_product_correspondence(ctx, st, quick)
    dense_oracles(ctx, quick)
    if bad and not ctx.violations:
        ctx.violation('MPS addition: model and implementation disagree: %r' % (bad[0],), dict(kind='correspondence', first=bad[:3]))
    if badp and not ctx.violations:
        ctx.violation('MPO @ MPS / MPO @ MPO: model and implementation disagree: %r' % (badp[0],), dict(kind='correspondence', first=badp[:3]))
    if ctx.broken and not ctx.violations:
        ctx.violation('obligation or tie no longer checks: %s' % ctx.broken[0], dict(kind='obligation', broken=ctx.broken), found_input=False)
    return ctx.finish(level='proof', checker_cmd='make -C /verif/coq (coqc 8.16.1) + coqc properties/C06.v (Print Assumptions)',
                      assumptions=['integer-valued data: exact comparisons; SVD-based routines compared within 1e-9 relative tolerance'])


def replay(ctx, path):
    print(json.dumps(json.load(open(path)), indent=1)[:4000])
    return 0
