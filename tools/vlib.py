"""vlib.py -- shared machinery of the /verif checks.

Pipeline of every check (see DESIGN.md section 3):
  regen (translators)  ->  make -k (Coq)  ->  audit  ->  extraction + driver
  ->  correspondence (model vs implementation)  ->  search (on any break)  ->  evidence / VIOLATION
"""
import os, sys, re, json, time, subprocess, fcntl, hashlib, random, traceback, glob

VERIF = '/verif'
REPO = '/repo'
COQ = os.path.join(VERIF, 'coq')
OCAML = os.path.join(VERIF, 'ocaml')
WORK = os.path.join(VERIF, '.work')
REPLAYS = os.path.join(VERIF, 'replays')
EVID = os.path.join(VERIF, 'evidence')
DRIVER = os.path.join(OCAML, 'model_driver')

FORBIDDEN = re.compile(r'\b(Admitted|admit|Axiom|Axioms|Parameter|Parameters|Conjecture|Conjectures|Hypothesis|Hypotheses|Variable|Variables'
                       r'|Unset\s+Guard\s+Checking|bypass_check|Admit\s+Obligations|native_compute|type-in-type|impredicative-set)\b')

ALLOWED_AXIOMS = set()   # target: "Closed under the global context" everywhere


# ----------------------------------------------------------------------------- s-expressions
def to_sx(o):
    if o is None:
        return '()'
    if isinstance(o, bool):
        return '1' if o else '0'
    if isinstance(o, int):
        if abs(o) >= 1 << 61:       # big integers travel as hex (see ocaml/driver.ml)
            return ('-x%x' % -o) if o < 0 else ('x%x' % o)
        return str(o)
    if hasattr(o, 'item') and not isinstance(o, (list, tuple)):   # numpy scalar
        v = o.item()
        if isinstance(v, float):
            assert v == int(v), v
            v = int(v)
        return to_sx(v)
    if isinstance(o, float):
        assert o == int(o), o
        return str(int(o))
    if isinstance(o, (list, tuple)):
        return '(' + ' '.join(to_sx(x) for x in o) + ')'
    raise TypeError('to_sx: %r' % (o,))


def parse_sx(s):
    toks = s.replace('(', ' ( ').replace(')', ' ) ').split()
    pos = 0

    def item():
        nonlocal pos
        t = toks[pos]
        pos += 1
        if t == '(':
            out = []
            while toks[pos] != ')':
                out.append(item())
            pos += 1
            return out
        if t.startswith('x'):
            return int(t[1:], 16)
        if t.startswith('-x'):
            return -int(t[2:], 16)
        return int(t)
    return item()


def canon(o):
    """python value -> nested lists of ints (the same shape parse_sx returns)"""
    return parse_sx(to_sx(o))


def coq_sx(o):
    """nested python ints/lists -> Coq term of type sx"""
    if isinstance(o, bool):
        o = int(o)
    if isinstance(o, int):
        return '(A (%d))' % o if o < 0 else '(A %d)' % o
    if o is None:
        return '(L [])'
    return '(L [' + '; '.join(coq_sx(x) for x in o) + '])'


class TimeLimit(Exception):
    pass


class time_limit:
    """with time_limit(seconds): ... raises TimeLimit (SIGALRM; main thread; interrupts Python-level loops only)"""
    def __init__(self, seconds):
        self.seconds = seconds

    def _handler(self, signum, frame):
        raise TimeLimit()

    def __enter__(self):
        import signal
        self.old = signal.signal(signal.SIGALRM, self._handler)
        signal.alarm(int(self.seconds))

    def __exit__(self, *a):
        import signal
        signal.alarm(0)
        signal.signal(signal.SIGALRM, self.old)
        return False


# ----------------------------------------------------------------------------- locking / shell
class Lock:
    def __enter__(self):
        os.makedirs(WORK, exist_ok=True)
        self.f = open(os.path.join(WORK, 'lock'), 'w')
        fcntl.flock(self.f, fcntl.LOCK_EX)
        return self

    def __exit__(self, *a):
        fcntl.flock(self.f, fcntl.LOCK_UN)
        self.f.close()


def sh(cmd, cwd=None, timeout=900, env=None, inp=None):
    e = dict(os.environ)
    if env:
        e.update(env)
    try:
        p = subprocess.run(cmd, shell=isinstance(cmd, str), cwd=cwd, timeout=timeout, env=e, input=inp,
                           stdout=subprocess.PIPE, stderr=subprocess.STDOUT, text=True)
        return p.returncode, p.stdout
    except subprocess.TimeoutExpired as ex:
        return 124, (ex.stdout or '') + '\nTIMEOUT'


# ----------------------------------------------------------------------------- translators
def regen():
    """run every translator; returns {name: dict(ok, error, shas)}"""
    sys.path.insert(0, os.path.join(VERIF, 'tools', 'translate'))
    res = {}
    for name in ('tr_sym', 'tr_geom', 'tr_cache', 'tr_krylov', 'tr_sweep', 'tr_step', 'tr_gates', 'tr_window', 'tr_deleg'):
        path = os.path.join(VERIF, 'tools', 'translate', name + '.py')
        if not os.path.exists(path):
            continue
        try:
            mod = __import__(name)
            out = mod.main(REPO)
            res[name] = dict(ok=True, error=None, info=out)
        except Exception as ex:   # TranslateError or anything else: broken tie (fail closed)
            res[name] = dict(ok=False, error='%s: %s' % (type(ex).__name__, ex), info=None)
    return res


# ----------------------------------------------------------------------------- Coq build
def coq_project_files():
    out = []
    for line in open(os.path.join(COQ, '_CoqProject')):
        line = line.strip()
        if line.endswith('.v'):
            out.append(line)
    return out


def coq_build(jobs=16):
    """make -k; returns (ok, log, failed: list of (file, line, msg))"""
    if not os.path.exists(os.path.join(COQ, 'Makefile')) or \
            os.path.getmtime(os.path.join(COQ, 'Makefile')) < os.path.getmtime(os.path.join(COQ, '_CoqProject')):
        sh('coq_makefile -f _CoqProject -o Makefile', cwd=COQ)
    rc, log = sh('timeout 1500 make -k -j%d 2>&1' % jobs, cwd=COQ, timeout=1600)
    failed = []
    for m in re.finditer(r'File "\./([^"]+)", line (\d+), characters [^\n]*\n((?:.*\n){0,12}?)(?=make|\Z|File|COQC)', log):
        if 'Error' in m.group(3):
            failed.append((m.group(1), int(m.group(2)), m.group(3).strip()[:600]))
    return rc == 0, log, failed


def vo_ok(vfile):
    """is the compiled file present and newer than its source?"""
    v = os.path.join(COQ, vfile)
    vo = v[:-2] + '.vo'
    return os.path.exists(vo) and os.path.getmtime(vo) >= os.path.getmtime(v)


def theorem_at(vfile, line):
    """name of the Theorem/Lemma enclosing a line"""
    name = None
    try:
        for i, l in enumerate(open(os.path.join(COQ, vfile)), 1):
            m = re.match(r'\s*(Theorem|Lemma|Corollary|Example|Definition|Fixpoint|Fact)\s+([A-Za-z0-9_\']+)', l)
            if m:
                name = m.group(2)
            if i >= line:
                break
    except OSError:
        pass
    return name


def deps_closure(vfile):
    """transitive dependencies (project .v files) of a project file, from coqdep"""
    rc, out = sh('coqdep -f _CoqProject 2>/dev/null', cwd=COQ)
    deps = {}
    for line in out.splitlines():
        if ':' not in line:
            continue
        lhs, rhs = line.split(':', 1)
        tg = [t for t in lhs.split() if t.endswith('.vo')]
        if not tg:
            continue
        t = tg[0][:-1]
        deps[t] = [d[:-1] for d in rhs.split() if d.endswith('.vo')]
    seen, todo = set(), [vfile]
    while todo:
        x = todo.pop()
        if x in seen:
            continue
        seen.add(x)
        todo.extend(deps.get(x, []))
    return sorted(seen)


def audit(prop_vfile):
    """forbidden-word scan over the closure of the property file + Print Assumptions parse.
    returns dict(ok, theorems: {name: axioms-text}, problems: [...])"""
    problems = []
    closure = deps_closure(prop_vfile)
    for f in closure:
        try:
            src = open(os.path.join(COQ, f)).read()
        except OSError:
            continue
        src_nc = strip_comments(src)
        for m in FORBIDDEN.finditer(src_nc):
            w = m.group(1)
            # Variable/Hypothesis are fine inside a Section; detect use outside sections
            if w.startswith(('Variable', 'Hypothes')):
                if not inside_section(src_nc, m.start()):
                    problems.append('%s: %s outside a Section' % (f, w))
                continue
            problems.append('%s: forbidden %s' % (f, w))
    # Print Assumptions: recompile the property file alone and parse its output
    theorems = {}
    if vo_ok(prop_vfile):
        rc, out = sh('timeout 600 coqc -Q theories Yv -Q properties YvP %s 2>&1' % prop_vfile, cwd=COQ, timeout=700)
        names = re.findall(r'Print Assumptions ([A-Za-z0-9_\']+)\.', open(os.path.join(COQ, prop_vfile)).read())
        chunks = re.split(r'(?m)^(?=Closed under the global context|Axioms:)', out)
        chunks = [c for c in chunks if c.startswith(('Closed under', 'Axioms:'))]
        if rc != 0:
            problems.append('%s: coqc failed at audit' % prop_vfile)
        if len(chunks) != len(names):
            problems.append('%s: %d Print Assumptions outputs for %d commands' % (prop_vfile, len(chunks), len(names)))
        for n, c in zip(names, chunks):
            c = c.strip()
            theorems[n] = c
            if not c.startswith('Closed under the global context'):
                axs = set(re.findall(r'(?m)^([A-Za-z0-9_.\']+)\s*:', c))
                bad = axs - ALLOWED_AXIOMS
                if bad:
                    problems.append('%s: theorem %s depends on axioms %s' % (prop_vfile, n, sorted(bad)))
        # every Theorem in the property file must be followed by a Print Assumptions
        declared = re.findall(r'(?m)^\s*Theorem\s+([A-Za-z0-9_\']+)', strip_comments(open(os.path.join(COQ, prop_vfile)).read()))
        for n in declared:
            if n not in names:
                problems.append('%s: theorem %s has no Print Assumptions' % (prop_vfile, n))
    else:
        problems.append('%s: not compiled' % prop_vfile)
    return dict(ok=not problems, theorems=theorems, problems=problems, closure=closure)


def strip_comments(src):
    out, depth, i = [], 0, 0
    while i < len(src):
        if src.startswith('(*', i):
            depth += 1
            i += 2
        elif src.startswith('*)', i) and depth:
            depth -= 1
            i += 2
        else:
            if not depth:
                out.append(src[i])
            i += 1
    return ''.join(out)


def inside_section(src, pos):
    opened = len(re.findall(r'(?m)^\s*Section\s', src[:pos]))
    closed = len(re.findall(r'(?m)^\s*End\s', src[:pos]))
    mods = len(re.findall(r'(?m)^\s*Module\s', src[:pos]))
    return opened + mods - closed > 0


# ----------------------------------------------------------------------------- extraction + driver
def build_driver():
    """(re)extract and compile the OCaml driver when the model changed. returns (ok, log)"""
    disp = os.path.join(COQ, 'theories', 'Run', 'Dispatch.vo')
    if not vo_ok('theories/Run/Dispatch.v'):
        return False, 'Dispatch.vo missing: executable model did not compile'
    if os.path.exists(DRIVER) and os.path.getmtime(DRIVER) >= os.path.getmtime(disp) \
            and os.path.getmtime(DRIVER) >= os.path.getmtime(os.path.join(OCAML, 'driver.ml')):
        return True, 'up to date'
    rc, out = sh('timeout 600 coqc -Q ../coq/theories Yv ../coq/extraction/Extract.v 2>&1; '
                 'rm -f ../coq/extraction/*.vo ../coq/extraction/*.glob ../coq/extraction/.*.aux ../coq/extraction/*.vok ../coq/extraction/*.vos',
                 cwd=OCAML, timeout=700)
    if not os.path.exists(os.path.join(OCAML, 'model.ml')):
        return False, out
    rc, out2 = sh('timeout 600 ocamlfind ocamlopt -w -a model.mli model.ml driver.ml -o model_driver 2>&1', cwd=OCAML, timeout=700)
    return rc == 0, out + out2


def run_model(cases, shards=12):
    """cases: list of (op:int, arg: python nested) -> list of parsed results, via the extracted driver"""
    if not cases:
        return []
    lines = ['(%d %s)' % (op, to_sx(arg)) for op, arg in cases]
    n = len(lines)
    shards = max(1, min(shards, n // 50 or 1))
    procs = []
    size = (n + shards - 1) // shards
    for k in range(shards):
        chunk = lines[k * size:(k + 1) * size]
        if not chunk:
            continue
        p = subprocess.Popen(['bash', '-c', 'ulimit -s unlimited 2>/dev/null; exec %s' % DRIVER], stdin=subprocess.PIPE,
                             stdout=subprocess.PIPE, text=True)
        procs.append((p, chunk))
    # feed/collect (communicate sequentially is fine: each process buffers its whole input)
    import threading
    outs = [None] * len(procs)

    def work(i):
        p, chunk = procs[i]
        o, _ = p.communicate('\n'.join(chunk) + '\n')
        outs[i] = o
    th = [threading.Thread(target=work, args=(i,)) for i in range(len(procs))]
    [t.start() for t in th]
    [t.join() for t in th]
    res = []
    for (p, chunk), o in zip(procs, outs):
        ls = [l for l in (o or '').splitlines() if l.strip()]
        if len(ls) != len(chunk):
            raise RuntimeError('model driver returned %d lines for %d cases (rc=%s)' % (len(ls), len(chunk), p.returncode))
        res.extend(parse_sx(l) for l in ls)
    return res


def coq_sample(tag, cases_expected, max_cases=400):
    """evaluate (op,arg) inside Coq by vm_compute and compare with expected results there.
    returns (ok, mismatching indices, n)"""
    cases_expected = cases_expected[:max_cases]
    if not cases_expected:
        return True, [], 0
    os.makedirs(WORK, exist_ok=True)
    d = os.path.join(WORK, 'sample_%s_%d' % (tag, os.getpid()))
    os.makedirs(d, exist_ok=True)
    body = ['From Coq Require Import List ZArith.', 'From Yv Require Import Base.Sx Run.Dispatch.',
            'Import ListNotations.', 'Open Scope Z_scope.',
            'Definition cases : list (sx * sx) := [']
    body.append(';\n'.join('  (L [A %d; %s], %s)' % (op, coq_sx(canon(arg)), coq_sx(canon(exp)))
                           for (op, arg, exp) in cases_expected))
    body += ['].', 'Eval vm_compute in (mismatches_from 0 run_case cases).']
    open(os.path.join(d, 'Cases.v'), 'w').write('\n'.join(body) + '\n')
    rc, out = sh('ulimit -s unlimited 2>/dev/null; timeout 600 coqc -Q %s/theories Yv Cases.v 2>&1' % COQ, cwd=d, timeout=700)
    sh('rm -rf %s' % d)
    m = re.search(r'=\s*\[(.*?)\]\s*:\s*list nat', out, re.S)
    if rc != 0 or not m:
        return False, [], len(cases_expected)
    idx = [int(x.replace('%nat', '')) for x in m.group(1).replace('\n', ' ').split(';') if x.strip()]
    return not idx, idx, len(cases_expected)


# ----------------------------------------------------------------------------- known findings
def load_known(prop):
    p = os.path.join(VERIF, 'known_findings.json')
    if not os.path.exists(p):
        return []
    data = json.load(open(p))
    return [e for e in data.get('findings', []) if e.get('property') == prop and e.get('status') == 'known']


# ----------------------------------------------------------------------------- check context
class Ctx:
    def __init__(self, prop, tier, seed):
        self.prop, self.tier, self.seed = prop, tier, seed
        self.rng = random.Random(seed)
        self.t0 = time.time()
        self.violations = []       # dicts: what, replay(obj), found_input(bool)
        self.known_hits = []
        self.cov = dict(evaluations=0, distinct_nontrivial=0, samples=[], rule='')
        self.hist = {}
        self.notes = []
        self.obligations = 0
        self.discharged = 0
        self.theorems = {}
        self.broken = []           # broken obligations / ties (strings)
        self.trusted = []
        self.extra = {}
        self.distinct = set()

    # --- bookkeeping
    def count(self, key, n=1):
        self.hist[key] = self.hist.get(key, 0) + n

    def case(self, desc, nontrivial=True):
        """register an explored case for coverage accounting; desc must be hashable/serialisable"""
        self.cov['evaluations'] += 1
        self.last_case = desc
        if nontrivial:
            h = hashlib.md5(repr(desc).encode()).hexdigest()
            self.distinct.add(h)
        if len(self.cov['samples']) < 6 and self.rng.random() < 0.3:
            self.cov['samples'].append(desc)

    def violation(self, what, replay, found_input=True, family=None):
        """record a violation unless it matches a known finding (then: KNOWN-FINDING)"""
        for k in load_known(self.prop):
            if family is not None and k.get('family') == family:
                if k['id'] not in [h['id'] for h in self.known_hits]:
                    self.known_hits.append(k)
                return
        self.violations.append(dict(what=what, replay=replay, found_input=found_input, family=family))

    def finish(self, level='proof', checker_cmd='', assumptions=None):
        os.makedirs(EVID, exist_ok=True)
        os.makedirs(REPLAYS, exist_ok=True)
        self.cov['distinct_nontrivial'] = len(self.distinct)
        if not self.cov['samples']:
            self.cov['samples'] = ['(no sample recorded)']
        cov = dict(self.cov)
        cov.update(obligations=self.obligations, discharged=self.discharged, checker_cmd=checker_cmd,
                   trusted_base=self.trusted, histogram=self.hist, theorems=self.theorems,
                   broken=self.broken, notes=self.notes, known_findings_printed=[k['id'] for k in self.known_hits])
        cov.update(self.extra)
        ev = dict(property_id=self.prop, tier=self.tier, seed=self.seed, level=level, coverage=cov,
                  assumptions=assumptions or [], wall_s=round(time.time() - self.t0, 2),
                  violations=len(self.violations))
        with open(os.path.join(EVID, self.prop + '.json'), 'w') as f:
            json.dump(ev, f, indent=1, default=str)
        for k in self.known_hits:
            print('KNOWN-FINDING: property=%s %s' % (self.prop, k['what']))
        if self.violations:
            # one replay file, first violation with a concrete input preferred
            vs = sorted(self.violations, key=lambda v: not v['found_input'])
            path = os.path.join(REPLAYS, '%s-%d.json' % (self.prop, self.seed))
            with open(path, 'w') as f:
                json.dump(dict(property=self.prop, seed=self.seed, tier=self.tier, violations=vs[:20]), f, indent=1, default=str)
            tail = '' if vs[0]['found_input'] else ' no-failing-input-found'
            print('VIOLATION property=%s replay=%s%s' % (self.prop, path, tail))
            for v in vs[:5]:
                print('  - %s' % v['what'][:400])
            return 1
        print('OK property=%s tier=%s evaluations=%d distinct=%d obligations=%d/%d wall=%.1fs' % (
            self.prop, self.tier, self.cov['evaluations'], len(self.distinct), self.discharged, self.obligations,
            time.time() - self.t0))
        return 0


def prepare(ctx, prop_vfile, need_translators=()):
    """steps 1-3 + driver. Fills ctx.obligations/discharged/theorems/broken. returns dict(model_ok=bool)"""
    with Lock():
        tr = regen()
        for name in need_translators:
            r = tr.get(name)
            if r is None or not r['ok']:
                ctx.broken.append('translator %s refused the source: %s' % (name, r and r['error']))
        ok, log, failed = coq_build()
        au = audit(prop_vfile)
        drv_ok, drv_log = build_driver()
    ctx.extra['translators'] = {k: dict(ok=v['ok'], error=v['error']) for k, v in tr.items()}
    closure = set(au['closure'])
    for (f, line, msg) in failed:
        if f in closure or f == prop_vfile:
            ctx.broken.append('proof obligation broken: %s line %d (%s): %s' % (f, line, theorem_at(f, line), msg[:300]))
    names = re.findall(r'(?m)^\s*Theorem\s+([A-Za-z0-9_\']+)', strip_comments(open(os.path.join(COQ, prop_vfile)).read()))
    ctx.obligations = len(names)
    ctx.theorems = au['theorems']
    ctx.discharged = sum(1 for n in names if au['theorems'].get(n, '').startswith('Closed under the global context')) \
        if vo_ok(prop_vfile) else 0
    for p in au['problems']:
        if p not in ctx.broken:
            ctx.broken.append('audit: ' + p)
    if not drv_ok:
        ctx.broken.append('executable model/driver did not build: ' + drv_log[-300:])
    ctx.trusted = [
        'Coq 8.16.1 kernel incl. vm_compute (no native_compute)',
        'axioms: none (every property theorem prints "Closed under the global context")',
        'translators tools/translate/*.py (fail-closed ast; cross-checked at run time against the real functions)',
        'extraction: ExtrOcamlBasic directives only, no Extract Constant; OCaml 4.13.1; driver ocaml/driver.ml',
        'harness tools/*.py (abstraction functions, comparison)',
    ]
    return dict(model_ok=drv_ok, build_ok=ok)
