#!/usr/bin/env python3
"""tr_gates.py -- fail-closed translator of the closed-form PEPS gates:
   yastn/tn/fpeps/gates.py (gate_nn_hopping, gate_nn_Ising, gate_local_Coulomb, gate_local_occupation, gate_local_field)
   ->  coq/theories/Gen/GatesGen.v

Each gate is read as a linear combination  sum_i coef_i * operator_i  where a coefficient is 1, cosh(x) - 1, sinh(x), cosh(x), -sinh(x) or
exp(x) - 1 with x a polynomial in the parameters, and an operator is built from the arguments by @, +, - and fkron(A, B, sites=...).
What the result is wrapped into (decompose_nn_gate / Gate_local) is checked literally."""
import ast, os, sys
sys.path.insert(0, os.path.dirname(__file__))
from pyexpr import TranslateError, find_function

SRC = 'yastn/tn/fpeps/gates.py'


def ex(n, params):
    if isinstance(n, ast.Name) and n.id in params:
        return 'EVar "%s"' % n.id
    if isinstance(n, ast.Constant) and isinstance(n.value, int):
        return 'ENum %d' % n.value
    if isinstance(n, ast.BinOp):
        a, b = ex(n.left, params), ex(n.right, params)
        if isinstance(n.op, ast.Mult):
            return 'EMul (%s) (%s)' % (a, b)
        if isinstance(n.op, ast.Add):
            return 'EAdd (%s) (%s)' % (a, b)
        if isinstance(n.op, ast.Div):
            return 'EDiv (%s) (%s)' % (a, b)
    raise TranslateError('gates: unsupported parameter expression %s' % ast.unparse(n))


def npcall(n, name):
    return isinstance(n, ast.Call) and isinstance(n.func, ast.Attribute) and isinstance(n.func.value, ast.Name) and n.func.value.id == 'np' and n.func.attr == name and len(n.args) == 1


def coef(n, params, neg=False):
    """coefficient expression -> Coq term of type cf"""
    if isinstance(n, ast.BinOp) and isinstance(n.op, ast.Sub) and isinstance(n.right, ast.Constant) and n.right.value == 1:
        if npcall(n.left, 'cosh') and not neg:
            return 'CfCoshM1 (%s)' % ex(n.left.args[0], params)
        if npcall(n.left, 'exp') and not neg:
            return 'CfExpM1 (%s)' % ex(n.left.args[0], params)
    if npcall(n, 'sinh'):
        return ('CfNegSinh (%s)' if neg else 'CfSinh (%s)') % ex(n.args[0], params)
    if npcall(n, 'cosh') and not neg:
        return 'CfCosh (%s)' % ex(n.args[0], params)
    raise TranslateError('gates: unsupported coefficient %s' % ast.unparse(n))


class Ops:
    def __init__(self, args, env):
        self.args, self.env = args, env

    def tr(self, n):
        if isinstance(n, ast.Name):
            if n.id in self.env:
                return self.env[n.id]
            if n.id in self.args:
                return 'OpName "%s"' % n.id
            raise TranslateError('gates: unknown operator name %s' % n.id)
        if isinstance(n, ast.BinOp):
            if isinstance(n.op, ast.MatMult):
                return 'OpMul (%s) (%s)' % (self.tr(n.left), self.tr(n.right))
            if isinstance(n.op, ast.Add):
                return 'OpAdd (%s) (%s)' % (self.tr(n.left), self.tr(n.right))
            if isinstance(n.op, ast.Sub):
                return 'OpSub (%s) (%s)' % (self.tr(n.left), self.tr(n.right))
        if isinstance(n, ast.Call) and isinstance(n.func, ast.Name) and n.func.id == 'fkron' and len(n.args) == 2:
            kw = {k.arg: k.value for k in n.keywords}
            order = ast.unparse(kw['sites']) if 'sites' in kw else '(0, 1)'
            if set(kw) - {'sites'} or order not in ('(0, 1)', '(1, 0)'):
                raise TranslateError('gates: unsupported fkron call %s' % ast.unparse(n))
            return 'OpKron (%s) (%s) %s' % (self.tr(n.args[0]), self.tr(n.args[1]), 'true' if order == '(0, 1)' else 'false')
        raise TranslateError('gates: unsupported operator expression %s' % ast.unparse(n))


def terms(n, params, ops, sign=1):
    """flatten an expression into [(cf, op)]"""
    if isinstance(n, ast.BinOp) and isinstance(n.op, ast.Add):
        return terms(n.left, params, ops, sign) + terms(n.right, params, ops, sign)
    if isinstance(n, ast.BinOp) and isinstance(n.op, ast.Sub):
        return terms(n.left, params, ops, sign) + terms(n.right, params, ops, -sign)
    if isinstance(n, ast.BinOp) and isinstance(n.op, ast.Mult):
        # coefficient * operator or operator * coefficient
        for c, o in ((n.left, n.right), (n.right, n.left)):
            try:
                return [(coef(c, params, neg=(sign < 0)), ops.tr(o))]
            except TranslateError:
                continue
        raise TranslateError('gates: term is not coefficient * operator: %s' % ast.unparse(n))
    if sign < 0:
        raise TranslateError('gates: negated bare operator %s' % ast.unparse(n))
    return [('CfOne', ops.tr(n))]


def gate(tree, path, name, params, opargs, wrap):
    fn = find_function(tree, name, path)
    got = [a.arg for a in fn.args.args]
    if got[:len(params) + len(opargs)] != params + opargs:
        raise TranslateError('%s: %s: signature changed: %r' % (path, name, got))
    env = {}
    ops = Ops(opargs, env)
    acc = {}
    ret = None
    for s in fn.body:
        if isinstance(s, ast.Expr) and isinstance(s.value, ast.Constant):
            continue
        if isinstance(s, ast.Assign) and isinstance(s.targets[0], ast.Name):
            t = s.targets[0].id
            if t in ('G', 'G_loc'):
                v = s.value
                # accumulation G_loc = G_loc + term
                if isinstance(v, ast.BinOp) and isinstance(v.op, ast.Add) and isinstance(v.left, ast.Name) and v.left.id == t and t in acc:
                    acc[t] = acc[t] + terms(v.right, params, ops)
                else:
                    acc[t] = terms(v, params, ops)
            else:
                env[t] = ops.tr(s.value)
            continue
        if isinstance(s, ast.Return):
            ret = ast.unparse(s.value)
            continue
        raise TranslateError('%s: %s: unsupported statement %s' % (path, name, ast.unparse(s)[:80]))
    if ret != wrap:
        raise TranslateError('%s: %s returns %r, expected %r' % (path, name, ret, wrap))
    key = 'G' if 'G' in acc else 'G_loc'
    return acc[key]


def translate(repo):
    path = os.path.join(repo, SRC)
    tree = ast.parse(open(path).read())
    out = []
    out.append(('gate_nn_hopping', gate(tree, path, 'gate_nn_hopping', ['t', 'step'], ['I', 'c', 'cdag'], 'decompose_nn_gate(G, bond)')))
    out.append(('gate_nn_Ising', gate(tree, path, 'gate_nn_Ising', ['J', 'step'], ['I', 'X'], 'decompose_nn_gate(G, bond)')))
    out.append(('gate_local_Coulomb', gate(tree, path, 'gate_local_Coulomb', ['mu_up', 'mu_dn', 'U', 'step'], ['I', 'n_up', 'n_dn'], 'Gate_local(G_loc, site)')))
    out.append(('gate_local_occupation', gate(tree, path, 'gate_local_occupation', ['mu', 'step'], ['I', 'n'], 'Gate_local(G_loc, site)')))
    out.append(('gate_local_field', gate(tree, path, 'gate_local_field', ['h', 'step'], ['I', 'X'], 'Gate_local(G_loc, site)')))
    # the generic exponentials: exp(D, step=-step) of the eigenvalues, conjugated by the eigenvectors
    for nm, need in (('gate_nn_exp', ['D, U = eigh(H, axes=(0, 1))', 'D = exp(D, step=-step)', 'G = ncon((U, D, U.conj()), ([-1, 1], [1, 2], [-3, 2]))']),
                     ('gate_local_exp', ['D, S = eigh(H, axes=(0, 1))', 'D = exp(D, step=-step)', 'G = ncon((S, D, S), ([-1, 1], [1, 2], [-3, 2]), conjs=(0, 0, 1))'])):
        src = ast.unparse(find_function(tree, nm, path))
        for line in need:
            if line not in src:
                raise TranslateError('%s: %s: expected statement %r not found' % (path, nm, line))
    # decompose_nn_gate: symmetric square-root splitting of the singular values
    src = ast.unparse(find_function(tree, 'decompose_nn_gate', path))
    for line in ('U, S, V = Gnn.svd_with_truncation(axes=((0, 1), (2, 3)), sU=-1, tol=1e-14, Vaxis=2)', 'S = S.sqrt()', 'return Gate_nn(S.broadcast(U, axes=2), S.broadcast(V, axes=2), bond)'):
        if line not in src:
            raise TranslateError('%s: decompose_nn_gate: expected statement %r not found' % (path, line))
    return out


def emit(out):
    o = ["(* GatesGen.v -- GENERATED by tools/translate/tr_gates.py from %s; do not edit. *)" % SRC,
         "From Coq Require Import List String ZArith.", "From Yv Require Import Gates.GateLang.", "Import ListNotations.", "Open Scope string_scope.", ""]
    for name, ts in out:
        o.append("Definition %s_form : list (cf * opx) := [%s]." % (name, '; '.join('(%s, %s)' % t for t in ts)))
    return '\n'.join(o) + '\n'


def main(repo='/repo', out='/verif/coq/theories/Gen/GatesGen.v'):
    t = translate(repo)
    text = emit(t)
    old = open(out).read() if os.path.exists(out) else None
    if old != text:
        os.makedirs(os.path.dirname(out), exist_ok=True)
        open(out, 'w').write(text)
    return dict(gates=[n for n, _ in t])


if __name__ == '__main__':
    try:
        print(main(*sys.argv[1:]))
    except TranslateError as e:
        print('TRANSLATE-ERROR', e)
        sys.exit(2)
