#!/usr/bin/env python3
"""tr_step.py -- fail-closed translator of the time-step arithmetic of TDVP:
   yastn/tn/mps/_tdvp.py (tdvp_, _tdvp_sweep_1site_, _tdvp_sweep_2site_)  ->  coq/theories/Gen/StepGen.v

Translated: the number of steps and the step length for an interval (t0, t1) and a requested dt; the advance of the clock; the (time, length)
arguments of the sweeps that make up one step of 2nd and of 4th order; the evolution parameters of the forward (site / bond) and backward
(centre / site) updates inside a sweep.  Everything is translated to exact rationals; u is kept as a symbol (the identities proved about it
are ring identities, valid for complex u as well)."""
import ast, os, sys
sys.path.insert(0, os.path.dirname(__file__))
from pyexpr import QExpr, TranslateError, QPRELUDE, find_function

SRC = 'yastn/tn/mps/_tdvp.py'


def translate(repo):
    path = os.path.join(repo, SRC)
    tree = ast.parse(open(path).read())
    fn = find_function(tree, 'tdvp_', path)
    D = []
    X = QExpr({'t0': 't0', 't1': 't1', 'dt': 'dt', 'ds': 'ds', 't': 't', 's2': 's2', 'steps': 'steps'}, path=path)
    loops = [n for n in ast.walk(fn) if isinstance(n, ast.For) and ast.unparse(n.iter) == 'zip(times[:-1], times[1:])']
    if len(loops) != 1:
        raise TranslateError('%s: tdvp_: loop over the time intervals not found' % path)
    F = loops[0]
    amap = {}
    for s in F.body:
        if isinstance(s, ast.Assign):
            t = s.targets[0]
            if isinstance(t, ast.Name):
                amap[t.id] = s.value
            elif isinstance(t, ast.Tuple) and isinstance(s.value, ast.Tuple):
                for a, b in zip(t.elts, s.value.elts):
                    amap[a.id] = b
    for k in ('steps', 't', 'ds'):
        if k not in amap:
            raise TranslateError('%s: tdvp_: %s not found' % (path, k))
    D.append(('tdvp_steps', '(t0 t1 dt : Q)', X.tr(amap['steps']), 'Q'))
    D.append(('tdvp_t_start', '(t0 : Q)', X.tr(amap['t']), 'Q'))
    D.append(('tdvp_ds', '(t0 t1 steps : Q)', X.tr(amap['ds']), 'Q'))
    inner = [s for s in F.body if isinstance(s, ast.For)]
    if len(inner) != 1:
        raise TranslateError('%s: tdvp_: loop over the steps not found' % path)
    G = inner[0]
    if ast.unparse(G.iter) not in ('rsteps',) or 'range(steps)' not in ast.unparse(amap.get('rsteps', ast.Constant(0))):
        raise TranslateError('%s: tdvp_: the step loop does not run over range(steps)' % path)
    # body: if order == '2nd': ... elif order == '4th': ... else raise ; t = t + ds
    if len(G.body) != 2 or not isinstance(G.body[0], ast.If) or ast.unparse(G.body[1]) != 't = t + ds':
        raise TranslateError('%s: tdvp_: unexpected shape of one time step' % path)
    D.append(('tdvp_t_next', '(t ds : Q)', '(t + ds)', 'Q'))
    I2 = G.body[0]

    def routines(stmts):
        out, loc = [], {}
        for s in stmts:
            if isinstance(s, ast.Assign) and isinstance(s.targets[0], ast.Name) and s.targets[0].id == 's2' and isinstance(s.value, ast.Constant):
                loc['s2'] = s.value.value
                continue
            if isinstance(s, ast.Assign) and ast.unparse(s.targets[0]) == 'env' and isinstance(s.value, ast.Call) and ast.unparse(s.value.func) == 'routine' \
                    and len(s.value.args) == 3 and ast.unparse(s.value.args[2]) == 'env':
                out.append((X.tr(s.value.args[0]), X.tr(s.value.args[1])))
                continue
            raise TranslateError('%s:%d: tdvp_: unexpected statement in a time step: %s' % (path, s.lineno, ast.unparse(s)[:80]))
        return out, loc
    if ast.unparse(I2.test) != "order == '2nd'" or len(I2.orelse) != 1 or not isinstance(I2.orelse[0], ast.If) or ast.unparse(I2.orelse[0].test) != "order == '4th'":
        raise TranslateError('%s: tdvp_: order dispatch not recognised' % path)
    r2, _ = routines(I2.body)
    r4, loc4 = routines(I2.orelse[0].body)
    if 's2' not in loc4:
        raise TranslateError('%s: tdvp_: constant s2 of the 4th order composition not found' % path)
    from pyexpr import qlit
    D.append(('tdvp_s2', '', qlit(loc4['s2']), 'Q'))
    D.append(('tdvp_order2', '(t ds : Q)', '[%s]' % '; '.join('(%s, %s)' % r for r in r2), 'list (Q * Q)'))
    D.append(('tdvp_order4', '(t ds s2 : Q)', '[%s]' % '; '.join('(%s, %s)' % r for r in r4), 'list (Q * Q)'))
    # the routine passes (time, length) on to the sweep as (H(t), dt0)
    lam = [n for n in ast.walk(fn) if isinstance(n, ast.Assign) and ast.unparse(n.targets[0]) == 'routine']
    for n in lam:
        src = ast.unparse(n.value)
        if not (src.startswith('lambda t, dt0, env: _tdvp_sweep_') and '(psi, Ht(t), dt0, u, et(env),' in src):
            raise TranslateError('%s: tdvp_: routine no longer forwards (Ht(t), dt0, u) to the sweep: %s' % (path, src[:100]))
    # evolution parameters inside the sweeps
    Y = QExpr({'u': 'u', 'dt': 'dt'}, path=path)

    def du_of(fname, helper):
        f = find_function(tree, fname, path)
        calls = [c for c in ast.walk(f) if isinstance(c, ast.Call) and isinstance(c.func, ast.Name) and c.func.id == helper]
        return [Y.tr(c.args[2] if helper != '_update_C' else c.args[1]) for c in calls]
    a1 = du_of('_tdvp_sweep_1site_', '_update_A'); c1 = du_of('_tdvp_sweep_1site_', '_update_C')
    aa2 = du_of('_tdvp_sweep_2site_', '_update_AA'); a2 = du_of('_tdvp_sweep_2site_', '_update_A')
    if not (len(a1) == 1 and len(c1) == 1 and len(aa2) == 1 and len(a2) == 1):
        raise TranslateError('%s: unexpected number of local updates in the sweeps' % path)
    D.append(('tdvp1_forward', '(u dt : Q)', a1[0], 'Q'))
    D.append(('tdvp1_backward', '(u dt : Q)', c1[0], 'Q'))
    D.append(('tdvp2_forward', '(u dt : Q)', aa2[0], 'Q'))
    D.append(('tdvp2_backward', '(u dt : Q)', a2[0], 'Q'))
    # the local updates apply exp(du * Heff) with exactly that du
    for h, call in (('_update_A', 'expmv(f, A, du, **opts, normalize=normalize, return_info=True)'), ('_update_C', 'expmv(f, env.bra[bd], du, **opts, normalize=normalize, return_info=True)'),
                    ('_update_AA', 'expmv(f, AA, du, **opts, normalize=normalize, return_info=True)')):
        if call not in ast.unparse(find_function(tree, h, path)):
            raise TranslateError('%s: %s no longer evolves by exactly du' % (path, h))
    return D


def emit(D):
    o = ["(* StepGen.v -- GENERATED by tools/translate/tr_step.py from %s; do not edit. *)" % SRC, QPRELUDE, "From Coq Require Import List.", "Import ListNotations.", ""]
    for name, params, body, ty in D:
        o.append("Definition %s %s : %s := %s." % (name, params, ty, body))
    return '\n'.join(o) + '\n'


def main(repo='/repo', out='/verif/coq/theories/Gen/StepGen.v'):
    D = translate(repo)
    text = emit(D)
    old = open(out).read() if os.path.exists(out) else None
    if old != text:
        os.makedirs(os.path.dirname(out), exist_ok=True)
        open(out, 'w').write(text)
    return dict(definitions=[d[0] for d in D])


if __name__ == '__main__':
    try:
        print(main(*sys.argv[1:]))
    except TranslateError as e:
        print('TRANSLATE-ERROR', e)
        sys.exit(2)
