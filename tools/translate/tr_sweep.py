#!/usr/bin/env python3
"""tr_sweep.py -- fail-closed translator of the sweep PROGRAMS of DMRG and TDVP:
   yastn/tn/mps/_dmrg.py (_dmrg_sweep_1site_, _dmrg_sweep_2site_), yastn/tn/mps/_tdvp.py (_tdvp_sweep_1site_, _tdvp_sweep_2site_ and the
   helpers _update_A / _update_C / _update_AA)  ->  coq/theories/Gen/SweepGen.v

A sweep is translated into (passes, body, final): `for (to, dn) in passes: for n in psi.sweep(to, dl): body(n, dn, to)`, then `final`.
Only statements that touch the MPS or the environment become operations of the model (Sweep/Sweep.v):
    env.Heff0/1/2 (through eigs / expmv / vdot) -> OHeff0 / OHeff1 n / OHeff2 n        psi.post_1site_ -> OWrite1 n
    psi.post_2site_ -> OWrite2 n          psi.A[pC] = ... -> OWriteC          psi.orthogonalize_site_ -> OOrth n to
    psi.absorb_central_ -> OAbsorb to     env.clear_site_(a, b) -> OClear a; OClear b            env.update_env_(k, to) -> OUpdate k to
Everything else must be free of calls on psi / env / env.bra other than the listed pure reads, or the translator refuses the source.
"""
import ast, os, sys
sys.path.insert(0, os.path.dirname(__file__))
from pyexpr import TranslateError, find_function

PURE_METHODS = {'pre_1site', 'pre_2site', 'sweep', 'svd', 'copy', 'norm', 'item', 'get', 'keys'}
ROOTS = {'psi', 'env'}


def fail(path, node, why):
    raise TranslateError('%s:%s: %s: %s' % (path, getattr(node, 'lineno', '?'), why, ast.unparse(node)[:160] if isinstance(node, ast.AST) else node))


class Tr:
    def __init__(self, path, tree):
        self.path, self.tree = path, tree

    # ---- integer expressions in n, dn
    def zexpr(self, n, env):
        if isinstance(n, ast.Constant) and isinstance(n.value, int) and not isinstance(n.value, bool):
            return '(%d)' % n.value
        if isinstance(n, ast.Name) and n.id in env:
            return env[n.id]
        if isinstance(n, ast.UnaryOp) and isinstance(n.op, ast.USub):
            return '(- %s)' % self.zexpr(n.operand, env)
        if isinstance(n, ast.BinOp) and isinstance(n.op, (ast.Add, ast.Sub, ast.Mult)):
            o = {ast.Add: '+', ast.Sub: '-', ast.Mult: '*'}[type(n.op)]
            return '(%s %s %s)' % (self.zexpr(n.left, env), o, self.zexpr(n.right, env))
        if isinstance(n, ast.Attribute) and isinstance(n.value, ast.Name) and n.value.id == 'psi' and n.attr == 'first':
            return '0'
        if isinstance(n, ast.Attribute) and isinstance(n.value, ast.Name) and n.value.id == 'psi' and n.attr == 'last':
            return '(N - 1)'
        if isinstance(n, ast.Call) and isinstance(n.func, ast.Name) and n.func.id == 'getattr' and len(n.args) == 2 and \
                isinstance(n.args[0], ast.Name) and n.args[0].id == 'psi' and isinstance(n.args[1], ast.Name) and n.args[1].id == 'to':
            return '(edge N to)'
        fail(self.path, n, 'unsupported site expression')

    def dirn(self, n):
        if isinstance(n, ast.Name) and n.id == 'to':
            return 'to'
        if isinstance(n, ast.Constant) and n.value in ('first', 'last'):
            return 'ToFirst' if n.value == 'first' else 'ToLast'
        fail(self.path, n, 'unsupported direction')

    def bond_first(self, n, env, bonds):
        """first site of a bond expression: a tuple (e, e + 1) or a name bound to one"""
        if isinstance(n, ast.Name) and n.id in bonds:
            return bonds[n.id]
        if isinstance(n, ast.Tuple) and len(n.elts) == 2:
            a, b = self.zexpr(n.elts[0], env), self.zexpr(n.elts[1], env)
            if ast.unparse(n.elts[1]).replace(' ', '') not in (ast.unparse(n.elts[0]).replace(' ', '') + '+1',):
                fail(self.path, n, 'bond is not (k, k + 1)')
            return a
        fail(self.path, n, 'unsupported bond expression')

    # ---- effects
    def root_of(self, n):
        while isinstance(n, (ast.Attribute, ast.Subscript, ast.Call)):
            n = n.value if not isinstance(n, ast.Call) else n.func
        return n.id if isinstance(n, ast.Name) else None

    def is_bra(self, n):
        """psi or env.bra"""
        return (isinstance(n, ast.Name) and n.id == 'psi') or (isinstance(n, ast.Attribute) and n.attr == 'bra' and isinstance(n.value, ast.Name) and n.value.id == 'env')

    def calls_in(self, node):
        return [c for c in ast.walk(node) if isinstance(c, ast.Call)]

    def effect_of_call(self, c, env, bonds, lambdas):
        """ops of one call expression (not recursing into arguments that are handled separately)"""
        f = c.func
        if isinstance(f, ast.Attribute):
            tgt, name = f.value, f.attr
            if isinstance(tgt, ast.Name) and tgt.id == 'env':
                if name == 'Heff1':
                    return ['OHeff1 %s' % self.zexpr(c.args[1], env)]
                if name == 'Heff2':
                    return ['OHeff2 %s' % self.bond_first(c.args[1], env, bonds)]
                if name == 'Heff0':
                    if not (isinstance(c.args[1], ast.Name) and bonds.get(c.args[1].id) == '@pC'):
                        fail(self.path, c, 'Heff0 on something else than the central block')
                    return ['OHeff0']
                if name == 'clear_site_':
                    return ['OClear %s' % self.zexpr(a, env) for a in c.args]
                if name == 'update_env_':
                    kw = {k.arg: k.value for k in c.keywords}
                    if len(c.args) != 1 or set(kw) != {'to'}:
                        fail(self.path, c, 'unsupported update_env_ call')
                    return ['OUpdate %s %s' % (self.zexpr(c.args[0], env), self.dirn(kw['to']))]
                fail(self.path, c, 'unknown environment method')
            if self.is_bra(tgt):
                if name == 'post_1site_':
                    return ['OWrite1 %s' % self.zexpr(c.args[1], env)]
                if name == 'post_2site_':
                    return ['OWrite2 %s' % self.bond_first(c.args[1], env, bonds)]
                if name == 'orthogonalize_site_':
                    kw = {k.arg: k.value for k in c.keywords}
                    site = c.args[0] if c.args else kw.get('n')
                    return ['OOrth %s %s' % (self.zexpr(site, env), self.dirn(kw['to']))]
                if name == 'absorb_central_':
                    kw = {k.arg: k.value for k in c.keywords}
                    return ['OAbsorb %s' % self.dirn(kw['to'])]
                if name in PURE_METHODS:
                    return []
                fail(self.path, c, 'unknown MPS method')
            if self.root_of(tgt) in ROOTS and name not in PURE_METHODS:
                fail(self.path, c, 'unknown method on psi/env')
            return []
        if isinstance(f, ast.Name):
            if f.id in ('eigs', 'expmv'):
                fn = c.args[0]
                if isinstance(fn, ast.Lambda):
                    return self.effects_expr(fn.body, env, bonds, lambdas)
                if isinstance(fn, ast.Name) and fn.id in lambdas:
                    return lambdas[fn.id]
                fail(self.path, c, 'Krylov solver applied to an unknown map')
            if f.id in ('vdot', 'max', 'min', 'abs', 'int', 'len', 'getattr', 'range', 'tuple', 'list'):
                return []
            if f.id in self.helpers:
                return self.inline(f.id, c, env)
            fail(self.path, c, 'unknown function')
        fail(self.path, c, 'unsupported call')

    def effects_expr(self, e, env, bonds, lambdas):
        """effects of evaluating an expression: inner calls first, left to right"""
        out = []
        if isinstance(e, ast.Lambda):
            return []        # defining a map has no effect; applying it has (see eigs / expmv)
        for ch in ast.iter_child_nodes(e):
            if isinstance(e, ast.Call) and isinstance(e.func, ast.Name) and e.func.id in ('eigs', 'expmv') and ch is e.args[0]:
                continue
            if isinstance(ch, ast.expr):
                out += self.effects_expr(ch, env, bonds, lambdas)
        if isinstance(e, ast.Call):
            out += self.effect_of_call(e, env, bonds, lambdas)
        return out

    def dedup(self, ops):
        out = []
        for o in ops:
            if not out or out[-1] != o or not o.startswith('OHeff'):
                out.append(o)
        return out

    def stmts(self, body, env, bonds=None, lambdas=None):
        bonds = dict(bonds or {})
        lambdas = dict(lambdas or {})
        out = []
        for s in body:
            if isinstance(s, ast.Expr) and isinstance(s.value, ast.Constant) and isinstance(s.value.value, str):
                continue
            if isinstance(s, ast.Return):
                if s.value is not None and self.effects_expr(s.value, env, bonds, lambdas):
                    fail(self.path, s, 'effects in a return expression')
                continue
            if isinstance(s, ast.Expr):
                out += self.effects_expr(s.value, env, bonds, lambdas)
                continue
            if isinstance(s, ast.Assign):
                tg = s.targets[0]
                # bond aliases
                if isinstance(tg, ast.Name) and isinstance(s.value, ast.Tuple) and len(s.value.elts) == 2:
                    try:
                        bonds[tg.id] = self.bond_first(s.value, env, bonds)
                        continue
                    except TranslateError:
                        pass
                if isinstance(tg, ast.Name) and ast.unparse(s.value) in ('env.bra.pC', 'psi.pC'):
                    bonds[tg.id] = '@pC'
                    continue
                if isinstance(tg, ast.Name) and ast.unparse(s.value) == 'bd[::-1]':
                    continue
                if isinstance(tg, ast.Name) and isinstance(s.value, ast.Lambda):
                    lambdas[tg.id] = self.dedup(self.effects_expr(s.value.body, env, bonds, lambdas))
                    continue
                eff = self.effects_expr(s.value, env, bonds, lambdas)
                # a write to the central block through the dictionary of site tensors
                tgs = tg.elts if isinstance(tg, ast.Tuple) else [tg]
                for t in tgs:
                    if isinstance(t, ast.Subscript) and ast.unparse(t.value) in ('env.bra.A', 'psi.A'):
                        if not ((isinstance(t.slice, ast.Name) and bonds.get(t.slice.id) == '@pC')
                                or ast.unparse(t.slice) in ('env.bra.pC', 'psi.pC')):
                            fail(self.path, s, 'direct write to a site tensor')
                        eff = eff + ['OWriteC']
                    elif isinstance(t, ast.Subscript) and self.root_of(t) in ROOTS and not ast.unparse(t).startswith(("env._temp", "Schmidt")):
                        fail(self.path, s, 'unsupported assignment target')
                    elif isinstance(t, ast.Attribute) and self.root_of(t) in ROOTS:
                        # the scalar prefactor of the state is no tensor and enters no environment
                        if not (ast.unparse(t) in ('psi.factor', 'env.bra.factor') and isinstance(s.value, ast.Constant)):
                            fail(self.path, s, 'assignment to an attribute of psi/env')
                out += eff
                continue
            if isinstance(s, ast.If):
                test = ast.unparse(s.test)
                b1 = self.dedup(self.stmts(s.body, env, bonds, lambdas)[0])
                b2 = self.dedup(self.stmts(s.orelse, env, bonds, lambdas)[0]) if s.orelse else []
                # lambdas defined in both branches
                l1 = self.stmts(s.body, env, bonds, lambdas)[2]
                l2 = self.stmts(s.orelse, env, bonds, lambdas)[2] if s.orelse else {}
                if self.effects_expr(s.test, env, bonds, lambdas):
                    fail(self.path, s, 'effects in a condition')
                if test == 'subtract_E':
                    for k in set(l1) | set(l2):
                        if k in l1 and k in l2 and l1[k] != l2[k]:
                            fail(self.path, s, 'the two subtract_E branches apply different effective Hamiltonians')
                        lambdas[k] = l1.get(k, l2.get(k))
                    if [o for o in b1 if not o.startswith('OHeff')] or [o for o in b2 if not o.startswith('OHeff')]:
                        fail(self.path, s, 'writes inside the subtract_E branches')
                    continue       # the extra <A|Heff|A> only reads what the solver reads again
                if not b1 and not b2:
                    lambdas.update(l1)
                    continue
                if test == "bd[0] != -1 and bd[1] != env.N" and bonds.get('bd') == '@pC' and not s.orelse:
                    out += b1          # the guard is part of the semantics of OHeff0 / OWriteC in the model
                    continue
                if test.replace(' ', '') == 'n+dn!=getattr(psi,to)' and not s.orelse:
                    out.append('OIf (negb (%s =? edge N to)) [%s]' % (self.zexpr(s.test.left, env), '; '.join(b1)))
                    continue
                fail(self.path, s, 'conditional with effects on psi/env is not understood')
            if isinstance(s, ast.AugAssign):
                if self.effects_expr(s.value, env, bonds, lambdas):
                    fail(self.path, s, 'effects in an augmented assignment')
                continue
            fail(self.path, s, 'unsupported statement')
        return out, bonds, lambdas

    def inline(self, name, call, env):
        fn = find_function(self.tree, name, self.path)
        params = [a.arg for a in fn.args.args]
        sub = {}
        bonds = {}
        for p, a in zip(params, call.args):
            if p == 'n':
                sub['n'] = self.zexpr(a, env)
            if p == 'bd':
                bonds['bd'] = self.bond_first(a, env, {})
        e2 = dict(env)
        e2.update(sub)
        return self.dedup(self.stmts(fn.body, e2, bonds)[0])

    def sweep(self, name, helpers=()):
        self.helpers = set(helpers)
        fn = find_function(self.tree, name, self.path)
        loops = [s for s in fn.body if isinstance(s, ast.For)]
        if len(loops) != 1:
            fail(self.path, fn, 'expected exactly one top-level loop over directions')
        F = loops[0]
        i = fn.body.index(F)
        # prologue: no effects allowed (psi = env.bra; env, opts = _init_tdvp(...); max_disc_weight = -1.)
        for s in fn.body[:i]:
            if isinstance(s, ast.Expr) and isinstance(s.value, ast.Constant):
                continue
            src = ast.unparse(s)
            if src in ('psi = env.bra', 'max_disc_weight = -1.0') or src.startswith('env, opts = _init_tdvp(psi, H, env, opts_expmv, precompute)'):
                continue
            fail(self.path, s, 'unexpected statement before the sweep')
        # passes
        passes = []
        if isinstance(F.target, ast.Name) and F.target.id == 'to':
            for e in F.iter.elts:
                passes.append((self.dirn(e), '0'))
        elif isinstance(F.target, ast.Tuple) and [t.id for t in F.target.elts] == ['to', 'dn']:
            for e in F.iter.elts:
                passes.append((self.dirn(e.elts[0]), self.zexpr(e.elts[1], {})))
        else:
            fail(self.path, F, 'unsupported loop over directions')
        inner = [s for s in F.body if isinstance(s, ast.For)]
        if len(inner) != 1 or len(F.body) != 1:
            fail(self.path, F, 'expected exactly the loop over sites inside the loop over directions')
        G = inner[0]
        it = G.iter
        if not (isinstance(G.target, ast.Name) and G.target.id == 'n' and isinstance(it, ast.Call) and ast.unparse(it.func) == 'psi.sweep'):
            fail(self.path, G, 'unsupported loop over sites')
        kw = {k.arg: k.value for k in it.keywords}
        if set(kw) - {'to', 'dl'} or it.args or self.dirn(kw['to']) != 'to':
            fail(self.path, G, 'unsupported sweep range')
        dl = self.zexpr(kw['dl'], {}) if 'dl' in kw else '0'
        env = {'n': 'n', 'dn': 'dn'}
        body = self.stmts(G.body, env)[0]
        final = self.stmts(fn.body[i + 1:], {})[0]
        return dict(name=name, passes=[(d, dn, dl) for d, dn in passes], body=body, final=final)


def sweep12(T, name, helpers):
    """the mixed 1-site / 2-site sweep: the control skeleton (flag update_two, decisions of env.enlarge_bond) is checked literally, the four
    blocks of operations are translated"""
    T.helpers = set(helpers)
    fn = find_function(T.tree, name, T.path)
    loops = [s for s in fn.body if isinstance(s, ast.For)]
    if len(loops) != 1:
        fail(T.path, fn, 'expected exactly one top-level loop over directions')
    F = loops[0]
    i = fn.body.index(F)
    if not (isinstance(F.target, ast.Tuple) and [t.id for t in F.target.elts] == ['to', 'dn']):
        fail(T.path, F, 'unsupported loop over directions')
    passes = [(T.dirn(e.elts[0]), T.zexpr(e.elts[1], {})) for e in F.iter.elts]
    if len(F.body) != 2 or ast.unparse(F.body[0]) != 'update_two = False' or not isinstance(F.body[1], ast.For):
        fail(T.path, F, '12site: expected "update_two = False" followed by the loop over sites')
    G = F.body[1]
    if ast.unparse(G.iter) != 'psi.sweep(to=to)' or ast.unparse(G.target) != 'n' or len(G.body) != 1 or not isinstance(G.body[0], ast.If):
        fail(T.path, G, '12site: unsupported loop over sites')
    top = G.body[0]
    ENL = 'env.enlarge_bond((n - 1 + dn, n + dn), opts_svd)'
    if ast.unparse(top.test) != 'not update_two':
        fail(T.path, top, '12site: expected the test "not update_two"')
    a = top.body
    if len(a) != 1 or not isinstance(a[0], ast.If) or ast.unparse(a[0].test) != ENL or ast.unparse(a[0].body[0]) != 'update_two = True' or len(a[0].body) != 1:
        fail(T.path, top, '12site: unexpected 1-site branch')
    env = {'n': 'n', 'dn': 'dn'}
    one = T.stmts(a[0].orelse, env)[0]
    b = top.orelse
    if not b or not isinstance(b[-1], ast.If) or ast.unparse(b[-1].test) != ENL:
        fail(T.path, top, '12site: unexpected 2-site branch')
    two = T.stmts(b[:-1], env)[0]
    two_A = T.stmts(b[-1].body, env)[0]
    cblock = b[-1].orelse
    if not cblock or ast.unparse(cblock[-1]) != 'update_two = False':
        fail(T.path, top, '12site: the centre branch must reset update_two')
    two_C = T.stmts(cblock[:-1], env)[0]
    final = T.stmts(fn.body[i + 1:], {})[0]
    for s_ in fn.body[:i]:
        src = ast.unparse(s_)
        if isinstance(s_, ast.Expr) and isinstance(s_.value, ast.Constant):
            continue
        if not src.startswith('env, opts = _init_tdvp(psi, H, env, opts_expmv, precompute)'):
            fail(T.path, s_, 'unexpected statement before the sweep')
    return dict(passes=passes, one=one, two=two, two_A=two_A, two_C=two_C, final=final)


def translate(repo):
    out = []
    p1 = os.path.join(repo, 'yastn/tn/mps/_dmrg.py')
    t1 = Tr(p1, ast.parse(open(p1).read()))
    out.append(('dmrg_1site', t1.sweep('_dmrg_sweep_1site_')))
    out.append(('dmrg_2site', t1.sweep('_dmrg_sweep_2site_')))
    # the driver measures the energy before the first and after every sweep, on the environment the sweeps maintain
    drv = find_function(t1.tree, '_dmrg_', p1)
    src = ast.unparse(drv)
    need = ["env.setup_(to='first')", 'E_old = env.measure().item().real', 'E = env.measure().item().real', "psi.canonize_(to='first')"]
    for s in need:
        if s not in src:
            raise TranslateError('%s: _dmrg_: expected statement %r not found' % (p1, s))
    p2 = os.path.join(repo, 'yastn/tn/mps/_tdvp.py')
    t2 = Tr(p2, ast.parse(open(p2).read()))
    H = ('_update_A', '_update_C', '_update_AA')
    out.append(('tdvp_1site', t2.sweep('_tdvp_sweep_1site_', H)))
    out.append(('tdvp_2site', t2.sweep('_tdvp_sweep_2site_', H)))
    out.append(('tdvp_12site', sweep12(t2, '_tdvp_sweep_12site_', H)))
    # enlarge_bond decides from the site tensors only and never enlarges across the ends of the chain
    p3 = os.path.join(repo, 'yastn/tn/mps/_env.py')
    eb = ast.unparse(find_function(ast.parse(open(p3).read()), 'enlarge_bond', p3))
    if 'if bd[0] < 0 or bd[1] >= self.N:\n        return False' not in eb or 'self.F' in eb or 'Heff' in eb or 'update_env' in eb:
        raise TranslateError('%s: enlarge_bond no longer refuses bonds outside the chain first, or it touches the environment' % p3)
    init = ast.unparse(find_function(t2.tree, '_init_tdvp', p2))
    if "env = Env(psi, [H, psi], precompute=precompute).setup_(to='first')" not in init:
        raise TranslateError('%s: _init_tdvp no longer sets the environment up towards the first site' % p2)
    return out


def emit(progs):
    o = ["(* SweepGen.v -- GENERATED by tools/translate/tr_sweep.py from yastn/tn/mps/_dmrg.py and _tdvp.py; do not edit. *)",
         "From Coq Require Import List ZArith Bool.", "From Yv Require Import Sweep.Sweep.", "Import ListNotations.", "Open Scope Z_scope.", ""]
    for nm, p in progs:
        if 'one' in p:
            o.append("Definition %s_passes : list (dirn * Z) := [%s]." % (nm, '; '.join('(%s, %s)' % x for x in p['passes'])))
            for k in ('one', 'two', 'two_A', 'two_C'):
                o.append("Definition %s_%s (N n dn : Z) (to : dirn) : list op := [%s]." % (nm, k, '; '.join(p[k])))
            o.append("Definition %s_final (N : Z) : list op := [%s]." % (nm, '; '.join(p['final'])))
            o.append("")
            continue
        o.append("Definition %s_passes : list (dirn * Z * Z) := [%s]." % (nm, '; '.join('(%s, %s, %s)' % x for x in p['passes'])))
        o.append("Definition %s_body (N n dn : Z) (to : dirn) : list op := [%s]." % (nm, '; '.join(p['body'])))
        o.append("Definition %s_final (N : Z) : list op := [%s]." % (nm, '; '.join(p['final'])))
        o.append("")
    return '\n'.join(o)


def write_if_changed(path, text):
    old = open(path).read() if os.path.exists(path) else None
    if old != text:
        os.makedirs(os.path.dirname(path), exist_ok=True)
        open(path, 'w').write(text)


def main(repo='/repo', out='/verif/coq/theories/Gen/SweepGen.v'):
    progs = translate(repo)
    write_if_changed(out, emit(progs))
    return dict(programs={nm: p for nm, p in progs})


if __name__ == '__main__':
    try:
        r = main(*sys.argv[1:])
        for k, v in r['programs'].items():
            print(k, v)
    except TranslateError as e:
        print('TRANSLATE-ERROR', e)
        sys.exit(2)
