#!/usr/bin/env python3
"""tr_sym.py -- fail-closed translator: yastn/sym/sym_*.py  ->  coq/theories/Gen/SymGen.v

Accepted grammar (anything else aborts with TranslateError -> broken tie):
  class <name>(sym_abelian):  SYM_ID = <str>;  NSYM = <int>;
      [@classmethod] def fuse([cls,] charges, signatures, new_signature): <body>
  body  ::= [docstring]  stmt*  'return' E
  stmt  ::= NAME '=' E   |   NAME[:, i] = np.mod(NAME[:, i], k)   |  NAME[:, i] = NAME[:, i] % k
  E     ::= charges.swapaxes(1, 2) @ signatures | new_signature * E | E * new_signature
          | np.mod(E, k) | E % k | NAME | (E)
"""
import ast, glob, os, sys, hashlib


class TranslateError(Exception):
    pass


def _fail(path, node, why):
    raise TranslateError("%s:%s: %s: %s" % (path, getattr(node, 'lineno', '?'), why,
                                           ast.dump(node)[:300] if isinstance(node, ast.AST) else node))


def _is_name(n, name):
    return isinstance(n, ast.Name) and n.id == name


def _int_const(path, n):
    if isinstance(n, ast.Constant) and isinstance(n.value, int) and not isinstance(n.value, bool):
        return n.value
    _fail(path, n, "expected integer literal")


def _is_np_mod(n):
    return (isinstance(n, ast.Call) and isinstance(n.func, ast.Attribute) and n.func.attr == 'mod'
            and _is_name(n.func.value, 'np') and len(n.args) == 2 and not n.keywords)


def _col_slice(path, n):
    """NAME[:, i] -> (NAME, i)"""
    if not (isinstance(n, ast.Subscript) and isinstance(n.value, ast.Name)):
        _fail(path, n, "expected NAME[:, i]")
    sl = n.slice
    if not (isinstance(sl, ast.Tuple) and len(sl.elts) == 2):
        _fail(path, n, "expected NAME[:, i]")
    a, b = sl.elts
    if not (isinstance(a, ast.Slice) and a.lower is None and a.upper is None and a.step is None):
        _fail(path, n, "expected full slice in first position")
    return n.value.id, _int_const(path, b)


class FuseTr:
    def __init__(self, path, nsym_name, pnames):
        self.path = path
        self.nsym_name = nsym_name
        self.p_charges, self.p_sigs, self.p_snew = pnames
        self.locals = set()

    def expr(self, n):
        path = self.path
        if isinstance(n, ast.BinOp) and isinstance(n.op, ast.MatMult):
            # charges.swapaxes(1, 2) @ signatures
            l, r = n.left, n.right
            ok = (isinstance(l, ast.Call) and isinstance(l.func, ast.Attribute) and l.func.attr == 'swapaxes'
                  and _is_name(l.func.value, self.p_charges) and len(l.args) == 2 and not l.keywords
                  and [_int_const(path, a) for a in l.args] == [1, 2] and _is_name(r, self.p_sigs))
            if not ok:
                _fail(path, n, "unsupported matmul")
            return "(matvec %s charges signatures)" % self.nsym_name
        if isinstance(n, ast.BinOp) and isinstance(n.op, ast.Mult):
            if _is_name(n.left, self.p_snew):
                return "(vscale new_signature %s)" % self.expr(n.right)
            if _is_name(n.right, self.p_snew):
                return "(vscale new_signature %s)" % self.expr(n.left)
            _fail(path, n, "unsupported product (only new_signature * E)")
        if _is_np_mod(n):
            return "(vmod %d %s)" % (self._modulus(n.args[1]), self.expr(n.args[0]))
        if isinstance(n, ast.BinOp) and isinstance(n.op, ast.Mod):
            return "(vmod %d %s)" % (self._modulus(n.right), self.expr(n.left))
        if isinstance(n, ast.Name) and n.id in self.locals:
            return "v_" + n.id
        _fail(path, n, "unsupported expression")

    def _modulus(self, n):
        k = _int_const(self.path, n)
        if k <= 0:
            _fail(self.path, n, "modulus must be positive")
        return k

    def body(self, stmts):
        path = self.path
        out = []
        stmts = list(stmts)
        if stmts and isinstance(stmts[0], ast.Expr) and isinstance(stmts[0].value, ast.Constant) \
                and isinstance(stmts[0].value.value, str):
            stmts = stmts[1:]
        if not stmts or not isinstance(stmts[-1], ast.Return) or stmts[-1].value is None:
            _fail(path, stmts[-1] if stmts else "empty", "fuse must end with 'return E'")
        for st in stmts[:-1]:
            if isinstance(st, ast.Assign) and len(st.targets) == 1:
                tg = st.targets[0]
                if isinstance(tg, ast.Name):
                    e = self.expr(st.value)
                    self.locals.add(tg.id)
                    out.append("let v_%s := %s in" % (tg.id, e))
                    continue
                if isinstance(tg, ast.Subscript):
                    name, i = _col_slice(path, tg)
                    if name not in self.locals:
                        _fail(path, st, "column assignment to unknown local")
                    v = st.value
                    if _is_np_mod(v):
                        src, k = v.args
                    elif isinstance(v, ast.BinOp) and isinstance(v.op, ast.Mod):
                        src, k = v.left, v.right
                    else:
                        _fail(path, st, "column assignment must be a mod")
                    name2, i2 = _col_slice(path, src)
                    if name2 != name or i2 != i:
                        _fail(path, st, "column mod must read the column it writes")
                    if i < 0:
                        _fail(path, st, "negative column index")
                    out.append("let v_%s := vmod_at %d %d v_%s in" % (name, i, self._modulus(k), name))
                    continue
            _fail(path, st, "unsupported statement")
        out.append(self.expr(stmts[-1].value))
        return out


def translate_class(path, cls):
    if not (len(cls.bases) == 1 and _is_name(cls.bases[0], 'sym_abelian')) or cls.keywords:
        _fail(path, cls, "class must derive from sym_abelian only")
    sym_id = nsym = fuse = None
    for st in cls.body:
        if isinstance(st, ast.Expr) and isinstance(st.value, ast.Constant) and isinstance(st.value.value, str):
            continue
        if isinstance(st, ast.Assign) and len(st.targets) == 1 and isinstance(st.targets[0], ast.Name):
            nm = st.targets[0].id
            if nm == 'SYM_ID' and isinstance(st.value, ast.Constant) and isinstance(st.value.value, str):
                sym_id = st.value.value
                continue
            if nm == 'NSYM':
                nsym = _int_const(path, st.value)
                continue
            _fail(path, st, "unexpected class attribute")
        if isinstance(st, ast.FunctionDef) and st.name == 'fuse':
            for dec in st.decorator_list:
                if not _is_name(dec, 'classmethod'):
                    _fail(path, dec, "unexpected decorator")
            a = st.args
            if a.vararg or a.kwarg or a.kwonlyargs or a.defaults or a.posonlyargs:
                _fail(path, st, "unexpected fuse signature")
            names = [x.arg for x in a.args]
            if len(names) == 4:
                names = names[1:]
            if len(names) != 3:
                _fail(path, st, "fuse must take (charges, signatures, new_signature)")
            fuse = (st, names)
            continue
        _fail(path, st, "unexpected statement in symmetry class")
    if sym_id is None or nsym is None or fuse is None:
        _fail(path, cls, "class lacks SYM_ID, NSYM or fuse")
    if nsym < 0 or nsym > 16:
        _fail(path, cls, "NSYM out of supported range")
    ident = ''.join(ch if ch.isalnum() else '_' for ch in sym_id)
    tr = FuseTr(path, "nsym_" + ident, fuse[1])
    body = tr.body(fuse[0].body)
    return dict(sym_id=sym_id, ident=ident, nsym=nsym, body=body, cls=cls.name, file=os.path.basename(path))


def translate(repo):
    symdir = os.path.join(repo, 'yastn', 'sym')
    files = sorted(glob.glob(os.path.join(symdir, 'sym_*.py')))
    classes, shas = [], {}
    for f in files:
        src = open(f).read()
        shas[os.path.relpath(f, repo)] = hashlib.sha256(src.encode()).hexdigest()
        if os.path.basename(f) == 'sym_abelian.py':
            continue
        tree = ast.parse(src)
        found = False
        for st in tree.body:
            if isinstance(st, ast.ClassDef):
                classes.append(translate_class(f, st))
                found = True
            elif isinstance(st, (ast.Import, ast.ImportFrom)):
                continue
            elif isinstance(st, ast.Expr) and isinstance(st.value, ast.Constant):
                continue
            else:
                _fail(f, st, "unexpected top-level statement")
        if not found:
            _fail(f, tree, "no symmetry class in file")
    # exported from yastn.sym ?
    init = ast.parse(open(os.path.join(symdir, '__init__.py')).read())
    exported = set()
    for st in init.body:
        if isinstance(st, ast.ImportFrom):
            exported.update(a.name for a in st.names)
    for c in classes:
        if c['cls'] not in exported:
            raise TranslateError("symmetry class %s is not exported by yastn/sym/__init__.py" % c['cls'])
    ids = [c['sym_id'] for c in classes]
    if len(set(ids)) != len(ids):
        raise TranslateError("duplicate SYM_ID: %r" % ids)
    classes.sort(key=lambda c: c['sym_id'])
    # the string -> class table used by make_config / from_dict
    ini = ast.parse(open(os.path.join(repo, 'yastn', 'tensor', '_initialize.py')).read())
    table = None
    for st in ini.body:
        if isinstance(st, ast.Assign) and len(st.targets) == 1 and _is_name(st.targets[0], '_syms'):
            if not isinstance(st.value, ast.Dict):
                _fail('_initialize.py', st, "_syms must be a dict literal")
            table = {}
            for k, v in zip(st.value.keys, st.value.values):
                if not (isinstance(k, ast.Constant) and isinstance(k.value, str) and isinstance(v, ast.Name)):
                    _fail('_initialize.py', st, "_syms entries must be str: Name")
                table[k.value] = v.id
    if table is None:
        raise TranslateError("_syms table not found in _initialize.py")
    return classes, shas, table


def emit(classes, table):
    o = []
    o.append("(* SymGen.v -- GENERATED by tools/translate/tr_sym.py from yastn/sym/sym_*.py; do not edit. *)")
    o.append("From Coq Require Import List ZArith String.")
    o.append("From Yv Require Import Sym.Descr.")
    o.append("Import ListNotations.")
    o.append("Open Scope Z_scope.")
    o.append("")
    for c in classes:
        o.append("(* class %s in %s *)" % (c['cls'], c['file']))
        o.append("Definition nsym_%s : nat := %d%%nat." % (c['ident'], c['nsym']))
        o.append("Definition fuse_%s (charges : list charge) (signatures : list Z) (new_signature : Z) : charge :="
                 % c['ident'])
        for line in c['body']:
            o.append("  " + line)
        o[-1] += "."
        o.append("")
    o.append("Definition shipped_ids : list string := [%s]%%string." %
             "; ".join('"%s"' % c['sym_id'] for c in classes))
    o.append("Definition shipped_nsym : list nat := [%s]." % "; ".join("nsym_%s" % c['ident'] for c in classes))
    o.append("Definition config_table_ids : list string := [%s]%%string." %
             "; ".join('"%s"' % k for k in sorted(table)))
    o.append("")
    o.append("Definition fuse_by_index (i : Z) : list charge -> list Z -> Z -> charge :=")
    o.append("  match i with")
    for i, c in enumerate(classes):
        o.append("  | %d => fuse_%s" % (i, c['ident']))
    o.append("  | _ => fun _ _ _ => []")
    o.append("  end.")
    o.append("Definition nsym_by_index (i : Z) : nat :=")
    o.append("  match i with")
    for i, c in enumerate(classes):
        o.append("  | %d => nsym_%s" % (i, c['ident']))
    o.append("  | _ => 0%nat")
    o.append("  end.")
    return "\n".join(o) + "\n"


def write_if_changed(path, text):
    old = open(path).read() if os.path.exists(path) else None
    if old != text:
        os.makedirs(os.path.dirname(path), exist_ok=True)
        with open(path, 'w') as f:
            f.write(text)
        return True
    return False


def main(repo='/repo', out='/verif/coq/theories/Gen/SymGen.v'):
    classes, shas, table = translate(repo)
    write_if_changed(out, emit(classes, table))
    return classes, shas, table


if __name__ == '__main__':
    try:
        cl, sh, tb = main(*(sys.argv[1:]))
        print("translated:", [c['sym_id'] for c in cl])
    except TranslateError as e:
        print("TRANSLATE-ERROR", e)
        sys.exit(2)
