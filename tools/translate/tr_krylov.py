#!/usr/bin/env python3
"""tr_krylov.py -- fail-closed translator of the control arithmetic of the Krylov solvers:
   yastn/krylov/_krylov.py (expmv, eigs, lin_solver)  ->  coq/theories/Gen/KrylovGen.v

What is translated (every other statement of these functions is numerics and is NOT modelled; see DESIGN.md):
  expmv      : initialisation of (t_now, t_out, sgn, tau, ncv, ncv_max); the loop guard; the step length and Krylov dimension chosen on a
               happy breakdown and otherwise; the acceptance test and what a happy breakdown feeds into it; the advance of t_now; the next
               step length and the next Krylov size.
  eigs       : number of Krylov vectors kept and dimension of the projected matrix.
  lin_solver : the same, plus the shape of the least-squares problem.
The translator also checks the control skeleton it relies on: every binding of t_now / t_out / tau / sgn in expmv is one of the translated
sites, t_now only advances inside the acceptance branch, and the step update is the last binding of tau in the loop body.
"""
import ast, os, sys
sys.path.insert(0, os.path.dirname(__file__))
from pyexpr import QExpr, TranslateError, fail, QPRELUDE, find_function, assignments_to

SRC = 'yastn/krylov/_krylov.py'


def _assign_map(stmts):
    """name -> value expr for simple / tuple assignments directly in stmts"""
    out = {}
    for s in stmts:
        if isinstance(s, ast.Assign) and len(s.targets) == 1:
            t, v = s.targets[0], s.value
            if isinstance(t, ast.Name):
                out[t.id] = v
            elif isinstance(t, ast.Tuple) and isinstance(v, ast.Tuple) and len(t.elts) == len(v.elts):
                for a, b in zip(t.elts, v.elts):
                    if isinstance(a, ast.Name):
                        out[a.id] = b
    return out


class QX(QExpr):
    def __init__(self, env, lens=None, path='?', attrs=None, bools=None):
        super().__init__(env, lens, path)
        self.attrs, self.bools = attrs or {}, bools or {}

    def tr(self, n):
        if isinstance(n, ast.Attribute) and isinstance(n.value, ast.Name) and (n.value.id, n.attr) in self.attrs:
            return self.attrs[(n.value.id, n.attr)]
        return super().tr(n)


def translate(repo):
    path = os.path.join(repo, SRC)
    tree = ast.parse(open(path).read())
    D = []      # (name, params, body, type)

    # ------------------------------------------------------------------ expmv
    fn = find_function(tree, 'expmv', path)
    top = _assign_map(fn.body)
    for k in ('ncv', 'ncv_max', 't_now', 't_out', 'sgn', 'tau', 'gamma', 'delta'):
        if k not in top:
            raise TranslateError('%s: expmv: initialisation of %s not found' % (path, k))
    X = QX({'ncv': 'ncv', 't': 't', 't_out': 't_out', 't_now': 't_now', 'tau': 'tau', 'tau_new': 'tau_new', 'ncv_new': 'ncv_new', 'ncv_max': 'ncv_max',
            'm': 'm', 'omega': 'omega', 'delta': 'delta'}, lens={'V': 'lenV'}, path=path, attrs={('v', 'size'): 'vsize'}, bools={'happy': 'happy'})
    D.append(('expmv_ncv0', '(ncv : Q)', X.tr(top['ncv']), 'Q'))
    D.append(('expmv_ncv_max', '(ncv vsize : Q)', X.tr(top['ncv_max']), 'Q'))
    D.append(('expmv_t_now0', '', X.tr(top['t_now']), 'Q'))
    D.append(('expmv_t_out0', '(t : Q)', X.tr(top['t_out']), 'Q'))
    D.append(('expmv_sgn', '(t t_out : Q)', X.tr(top['sgn']), 'Q'))
    D.append(('expmv_tau0', '(t_out : Q)', X.tr(top['tau']), 'Q'))
    D.append(('expmv_delta', '', X.tr(top['delta']), 'Q'))
    # zero start vector: t_out = 0 (nothing to evolve)
    zero_if = [s for s in fn.body if isinstance(s, ast.If) and isinstance(s.test, ast.Compare) and isinstance(s.test.left, ast.Name) and s.test.left.id == 'normv']
    if len(zero_if) != 1 or 't_out' not in _assign_map(zero_if[0].body):
        raise TranslateError('%s: expmv: zero-vector branch not recognised' % path)
    D.append(('expmv_t_out_zero_vector', '', X.tr(_assign_map(zero_if[0].body)['t_out']), 'Q'))
    loops = [s for s in fn.body if isinstance(s, ast.While)]
    if len(loops) != 1 or loops[0].orelse:
        raise TranslateError('%s: expmv: expected exactly one while loop' % path)
    W = loops[0]
    D.append(('expmv_continue', '(t_now t_out : Q)', X.cond(W.test), 'bool'))
    body = W.body
    grow = [st for st in body if isinstance(st, ast.Assign) and isinstance(st.targets[0], ast.Name) and st.targets[0].id == 'ncv_max']
    if len(grow) != 1 or ast.unparse(grow[0].value) != 'max(ncv_max, min(30, V[-1].size))':
        raise TranslateError('%s: expmv: growth of ncv_max with the support of the Krylov vectors not recognised' % path)
    D.append(('expmv_ncv_max_grow', '(ncv_max supp : Q)', '(Qmax ncv_max (Qmin (Qmake (30) 1) supp))', 'Q'))
    # happy branch
    happy_ifs = [i for i, s in enumerate(body) if isinstance(s, ast.If) and isinstance(s.test, ast.Name) and s.test.id == 'happy' and 'm' in _assign_map(s.body)]
    if len(happy_ifs) != 1:
        raise TranslateError('%s: expmv: the happy-breakdown branch choosing (tau, m) was not found exactly once' % path)
    ih = happy_ifs[0]
    hb, ub = _assign_map(body[ih].body), _assign_map(body[ih].orelse)
    if 'tau' not in hb or 'm' not in hb or 'm' not in ub or 'tau' in ub:
        raise TranslateError('%s: expmv: unexpected shape of the happy-breakdown branch' % path)
    D.append(('expmv_tau_happy', '(t_out t_now tau : Q)', X.tr(hb['tau']), 'Q'))
    D.append(('expmv_m_happy', '(lenV : Q)', X.tr(hb['m']), 'Q'))
    D.append(('expmv_m_unhappy', '(lenV : Q)', X.tr(ub['m']), 'Q'))
    # what a happy breakdown feeds into the controller
    ctl = [i for i, s in enumerate(body) if isinstance(s, ast.If) and isinstance(s.test, ast.Name) and s.test.id == 'happy' and 'omega' in _assign_map(s.body)]
    if len(ctl) != 1:
        raise TranslateError('%s: expmv: controller branch of the happy breakdown not found' % path)
    ic = ctl[0]
    cb = _assign_map(body[ic].body)
    if 'tau_new' not in cb:
        raise TranslateError('%s: expmv: tau_new of the happy breakdown not found' % path)
    D.append(('expmv_omega_happy', '', X.tr(cb['omega']), 'Q'))
    D.append(('expmv_tau_new_happy', '(tau : Q)', X.tr(cb['tau_new']), 'Q'))
    # acceptance
    acc = [i for i, s in enumerate(body) if isinstance(s, ast.If) and any(isinstance(x, ast.AugAssign) and isinstance(x.target, ast.Name) and x.target.id == 't_now' for x in s.body)]
    if len(acc) != 1:
        raise TranslateError('%s: expmv: acceptance branch advancing t_now not found exactly once' % path)
    ia = acc[0]
    A = body[ia]
    D.append(('expmv_accept', '(omega delta : Q)', X.cond(A.test), 'bool'))
    aug = [x for x in A.body if isinstance(x, ast.AugAssign) and isinstance(x.target, ast.Name) and x.target.id == 't_now']
    if len(aug) != 1 or not isinstance(aug[0].op, ast.Add):
        raise TranslateError('%s: expmv: t_now must advance by one "+=" in the acceptance branch' % path)
    D.append(('expmv_t_now_accept', '(t_now tau : Q)', '(t_now + %s)' % X.tr(aug[0].value), 'Q'))
    # the step / size updates: last two statements binding tau, ncv directly in the loop body
    tail = _assign_map(body[ia + 1:])
    if 'tau' not in tail or 'ncv' not in tail:
        raise TranslateError('%s: expmv: step-length / Krylov-size update after the acceptance branch not found' % path)
    if not (ih < ic < ia):
        raise TranslateError('%s: expmv: order of the controller stages changed' % path)
    D.append(('expmv_tau_next', '(tau tau_new t_out t_now : Q)', X.tr(tail['tau']), 'Q'))
    D.append(('expmv_ncv_next', '(ncv_max m ncv_new : Q)', X.tr(tail['ncv']), 'Q'))
    # skeleton: all bindings of the clock variables are the translated sites
    sites = assignments_to(fn, {'t_now', 't_out', 'sgn'})
    exp = {'t_now': 2, 't_out': 2, 'sgn': 1}
    cnt = {}
    for _, nm in sites:
        cnt[nm] = cnt.get(nm, 0) + 1
    if cnt != exp:
        raise TranslateError('%s: expmv: clock variables are bound at %r sites, expected %r' % (path, cnt, exp))
    tau_sites = [n for n, nm in assignments_to(fn, {'tau'}) if nm == 'tau']
    if len(tau_sites) != 3:
        raise TranslateError('%s: expmv: tau is bound at %d sites, expected 3 (initial guess, happy breakdown, update)' % (path, len(tau_sites)))
    for s in body[ia].orelse:
        for n in ast.walk(s):
            if isinstance(n, ast.Name) and isinstance(n.ctx, ast.Store) and n.id in ('t_now', 'tau', 't_out'):
                raise TranslateError('%s: expmv: the rejection branch binds %s' % (path, n.id))

    # ------------------------------------------------------------------ eigs / lin_solver
    def dims(fname, vecs):
        f = find_function(tree, fname, path)
        am = _assign_map(f.body)
        Y = QX({'m': 'm'}, lens={vecs: 'lenV'}, path=path, bools={'happy': 'happy'})
        ms = [st.value for st in f.body if isinstance(st, ast.Assign) and isinstance(st.targets[0], ast.Name) and st.targets[0].id == 'm']
        if len(ms) != 2 or ast.unparse(ms[1]) != 'min(m, max((x.size for x in %s)))' % vecs:
            raise TranslateError('%s: %s: expected m = (len if happy else len - 1) followed by the cap m = min(m, max(x.size for x in %s))' % (path, fname, vecs))
        D.append(('%s_m' % fname, '(happy : bool) (lenV : Q)', Y.tr(ms[0]), 'Q'))
        D.append(('%s_m_cap' % fname, '(m supp : Q)', '(Qmin m supp)', 'Q'))
        sl = am.get(vecs)
        if not (isinstance(sl, ast.Subscript) and isinstance(sl.value, ast.Name) and sl.value.id == vecs and isinstance(sl.slice, ast.Slice)
                and sl.slice.lower is None and sl.slice.step is None and sl.slice.upper is not None):
            raise TranslateError('%s: %s: truncation %s = %s[:m] not found' % (path, fname, vecs, vecs))
        D.append(('%s_kept' % fname, '(m : Q)', Y.tr(sl.slice.upper), 'Q'))
        T = am.get('T')
        calls = [s.value for s in f.body if isinstance(s, ast.Assign) and isinstance(s.value, ast.Call) and isinstance(s.value.func, ast.Attribute)
                 and s.value.func.attr == 'square_matrix_from_dict']
        if len(calls) != 1 or len(calls[0].args) < 2:
            raise TranslateError('%s: %s: square_matrix_from_dict call not found' % (path, fname))
        D.append(('%s_T_dim' % fname, '(m : Q)', Y.tr(calls[0].args[1]), 'Q'))
        return f, am, Y
    dims('eigs', 'V')
    f, am, Y = dims('lin_solver', 'Q')
    T = am['T']
    if not (isinstance(T, ast.Subscript) and isinstance(T.slice, ast.Tuple) and len(T.slice.elts) == 2 and all(isinstance(e, ast.Slice) and e.lower is None and e.step is None for e in T.slice.elts)):
        raise TranslateError('%s: lin_solver: T[:rows, :cols] not recognised' % path)
    D.append(('lin_solver_T_rows', '(m : Q)', Y.tr(T.slice.elts[0].upper), 'Q'))
    D.append(('lin_solver_T_cols', '(m : Q)', Y.tr(T.slice.elts[1].upper), 'Q'))
    be = [s.value for s in f.body if isinstance(s, ast.Assign) and isinstance(s.targets[0], ast.Name) and s.targets[0].id == 'be1']
    ok = False
    if len(be) == 1 and isinstance(be[0], ast.Call) and be[0].args and isinstance(be[0].args[0], ast.BinOp) and isinstance(be[0].args[0].op, ast.Add):
        l, r = be[0].args[0].left, be[0].args[0].right
        if isinstance(l, ast.List) and len(l.elts) == 1 and isinstance(r, ast.BinOp) and isinstance(r.op, ast.Mult) and isinstance(r.left, ast.List) and len(r.left.elts) == 1:
            D.append(('lin_solver_rhs_len', '(m : Q)', '(1 + %s)' % Y.tr(r.right), 'Q'))
            ok = True
    if not ok:
        raise TranslateError('%s: lin_solver: right-hand side [normv] + [0] * m not recognised' % path)
    # the residual is computed from the returned vector itself
    ret = [s for s in f.body if isinstance(s, ast.Return)]
    src_res = ast.unparse(am.get('res')) if am.get('res') is not None else ''
    if len(ret) != 1 or ast.unparse(ret[0].value) != '(vf, res.norm())' or src_res != 'f(vf) - b':
        raise TranslateError('%s: lin_solver: the returned residual is no longer norm(f(vf) - b) of the returned vf' % path)
    return D


def emit(D):
    o = ["(* KrylovGen.v -- GENERATED by tools/translate/tr_krylov.py from %s; do not edit. *)" % SRC, QPRELUDE]
    for name, params, body, ty in D:
        o.append("Definition %s %s : %s := %s." % (name, params, ty, body))
    return '\n'.join(o) + '\n'


def write_if_changed(path, text):
    old = open(path).read() if os.path.exists(path) else None
    if old != text:
        os.makedirs(os.path.dirname(path), exist_ok=True)
        open(path, 'w').write(text)


def main(repo='/repo', out='/verif/coq/theories/Gen/KrylovGen.v'):
    D = translate(repo)
    write_if_changed(out, emit(D))
    return dict(definitions=[d[0] for d in D])


if __name__ == '__main__':
    try:
        print(main(*sys.argv[1:]))
    except TranslateError as e:
        print('TRANSLATE-ERROR', e)
        sys.exit(2)
