#!/usr/bin/env python3
"""tr_window.py -- fail-closed translator of the fermionic-string bookkeeping of 2-site measurements in a PEPS window:
   yastn/tn/fpeps/envs/_env_window.py (_measure_2site_rows, _measure_2site_columns)  ->  coq/theories/Gen/WindowGen.v

For every site the string of the first operator passes (same row/column behind the first operator; every later row/column) the loop body is
translated into a little program over the pending charge swaps of that site's double-layer tensor:
   SSave | SAdd [axes] | SIfListed [ SSetOp | SMeasure | SRestore ... ] ...
Anything else that touches the transfer-matrix tensor of the site makes the translator refuse (the tie is then broken)."""
import ast, os, sys
sys.path.insert(0, os.path.dirname(__file__))
try:
    from pyexpr import TranslateError, find_function
except ImportError:      # stand-alone use
    class TranslateError(Exception):
        pass

    def find_function(tree, name, path):
        for n in tree.body:
            if isinstance(n, ast.FunctionDef) and n.name == name:
                return n
        raise TranslateError('%s: function %s not found' % (path, name))

SRC = 'yastn/tn/fpeps/envs/_env_window.py'
AXES = ['b0', 'b1', 'b2', 'b3', 'b4', 'k0', 'k1', 'k2', 'k3', 'k4']


def fail(path, node, why):
    raise TranslateError('%s:%d: %s: %s' % (path, getattr(node, 'lineno', 0), why, ast.unparse(node)[:120]))


def axes_of(path, call):
    kw = {k.arg: k.value for k in call.keywords}
    ax = kw.get('axes', call.args[3] if len(call.args) > 3 else None)
    if isinstance(ax, ast.Constant) and isinstance(ax.value, str):
        names = [ax.value]
    elif isinstance(ax, (ast.List, ast.Tuple)) and all(isinstance(e, ast.Constant) and isinstance(e.value, str) for e in ax.elts):
        names = [e.value for e in ax.elts]
    else:
        fail(path, call, 'axes of add_charge_swaps_ are not string constants')
    for n in names:
        if n not in AXES:
            fail(path, call, 'unknown axis name')
    return names


def site_program(path, body, idx, charge):
    """statements of one loop body acting on tm[idx]"""
    out = []
    for s in body:
        src = ast.unparse(s)
        if isinstance(s, ast.Assign) and isinstance(s.targets[0], ast.Name) and s.targets[0].id == idx:
            continue                                    # idx = position in the window
        if isinstance(s, ast.Expr) and isinstance(s.value, ast.Call) and ast.unparse(s.value.func) == 'env.update_env_':
            if 'tm' in src:
                fail(path, s, 'environment update refers to the transfer matrix')
            continue
        if isinstance(s, ast.Assign) and src.replace(' ', '') == 'old_tensor=tm[%s]' % idx:
            out.append('SSave'); continue
        if isinstance(s, ast.Expr) and isinstance(s.value, ast.Call) and isinstance(s.value.func, ast.Name):
            f, a = s.value.func.id, s.value.args
            if f == 'add_charge_swaps_':
                if len(a) < 3 or ast.unparse(a[0]) != 'tm' or ast.unparse(a[1]) != idx or ast.unparse(a[2]) != charge:
                    fail(path, s, 'add_charge_swaps_ on something else than the passed site with the charge of the first operator')
                out.append('SAdd [%s]' % '; '.join('X' + n for n in axes_of(path, s.value))); continue
            if f == 'set_operator_':
                if ast.unparse(a[0]) != 'tm' or ast.unparse(a[1]) != idx:
                    fail(path, s, 'set_operator_ on another site')
                out.append('SSetOp'); continue
            if f == 'restore_old_tensor_':
                if ast.unparse(a[0]) != 'tm' or ast.unparse(a[1]) != idx or ast.unparse(a[2]) != 'old_tensor':
                    fail(path, s, 'restore_old_tensor_ with unexpected arguments')
                out.append('SRestore'); continue
            if f == 'del_charge_swaps_':
                if ast.unparse(a[0]) != 'tm' or ast.unparse(a[1]) != idx:
                    fail(path, s, 'del_charge_swaps_ on another site')
                out.append('SClear'); continue
            fail(path, s, 'unknown call in the loop over passed sites')
        if isinstance(s, ast.Assign) and src.startswith('out[') and 'env.measure(' in src:
            out.append('SMeasure'); continue
        if isinstance(s, ast.If):
            t = ast.unparse(s.test)
            if t.endswith('in pairs') and not s.orelse:
                out.append('SIfListed [%s]' % '; '.join(site_program(path, s.body, idx, charge))); continue
            if t.replace(' ', '') in ('%s<iy_end' % idx, '%s<ix_end' % idx) and not s.orelse and all('tm' not in ast.unparse(x) for x in s.body):
                continue                                # environment update between sites
            fail(path, s, 'conditional is not understood')
        if isinstance(s, ast.For) and 'O1dict' in ast.unparse(s.iter):
            out += site_program(path, s.body, idx, charge); continue     # several second operators: the same statements for each
        fail(path, s, 'unsupported statement in the loop over passed sites')
    return out


def loops_of(path, fn, idx):
    """the loops whose body assigns idx (the passed-site index), in source order: (same line, later lines)"""
    found = []
    for n in ast.walk(fn):
        if isinstance(n, ast.For) and any(isinstance(s, ast.Assign) and isinstance(s.targets[0], ast.Name) and s.targets[0].id == idx for s in n.body):
            found.append(n)
    found.sort(key=lambda n: n.lineno)
    if len(found) != 2:
        raise TranslateError('%s: %s: expected two loops over passed sites, found %d' % (path, fn.name, len(found)))
    return found


def _binds_tm(s):
    """the expression bound to the name tm by statement s (None if s does not bind tm)"""
    if not isinstance(s, ast.Assign) or len(s.targets) != 1:
        return None
    t, v = s.targets[0], s.value
    if isinstance(t, ast.Name) and t.id == 'tm':
        return v
    if isinstance(t, ast.Tuple) and isinstance(v, ast.Tuple) and len(t.elts) == len(v.elts):
        for a, b in zip(t.elts, v.elts):
            if isinstance(a, ast.Name) and a.id == 'tm':
                return b
    if any(isinstance(n, ast.Name) and n.id == 'tm' for n in ast.walk(t)):
        return s            # bound in a way that is not understood
    return None


def fresh_transfer_matrix(path, fn, same, later):
    """premise of the model: the passed sites start without pending swaps and without an inserted operator for EVERY first operator, i.e. the
    transfer matrix tm is fetched anew (self[line, 'h'/'v'] builds new tensors) inside the loop over the first operators, before each of the two loops"""
    o0 = [n for n in ast.walk(fn) if isinstance(n, ast.For) and 'O0dict' in ast.unparse(n.iter)]
    if len(o0) != 1:
        raise TranslateError('%s: %s: expected one loop over the first operators, found %d' % (path, fn.name, len(o0)))
    o0 = o0[0]
    inside = set(id(n) for n in ast.walk(o0))
    for n in ast.walk(fn):
        v = _binds_tm(n)
        if v is None:
            continue
        if id(n) not in inside:
            fail(path, n, 'transfer matrix bound outside the loop over the first operators (it would be shared between them)')
        if not (isinstance(v, ast.Subscript) and isinstance(v.value, ast.Name) and v.value.id == 'self'):
            fail(path, n, 'transfer matrix is not fetched from the environment')
    def bound_before(body, loop):
        return any(_binds_tm(s) is not None and s.lineno < loop.lineno for s in body)
    if same not in o0.body or not bound_before(o0.body, same):
        fail(path, same, 'no fresh transfer matrix before the loop over the line of the first operator')
    outer = [n for n in o0.body if isinstance(n, ast.For) and later in n.body]
    if len(outer) != 1 or not bound_before(outer[0].body, later):
        fail(path, later, 'no fresh transfer matrix for a later line')


def translate(repo):
    path = os.path.join(repo, SRC)
    tree = ast.parse(open(path).read())
    progs = []
    for fname, idx, tag in (('_measure_2site_rows', 'iy1', 'rows'), ('_measure_2site_columns', 'ix1', 'cols')):
        fn = find_function(tree, fname, path)
        same, later = loops_of(path, fn, idx)
        fresh_transfer_matrix(path, fn, same, later)
        progs.append((tag + '_same_line', site_program(path, same.body, idx, 'o0.n')))
        progs.append((tag + '_later_line', site_program(path, later.body, idx, 'o0.n')))
    return progs


def emit(progs):
    L = ['(* GENERATED by tools/translate/tr_window.py from %s -- do not edit *)' % SRC,
         'From Coq Require Import List.', 'From Yv Require Import Peps.WindowModel.', 'Import ListNotations.', '']
    for name, prog in progs:
        L.append('Definition %s : list stmt := [%s].' % (name, '; '.join(prog)))
    L.append('')
    L.append('Definition window_programs : list (list stmt) := [%s].' % '; '.join(n for n, _ in progs))
    return '\n'.join(L) + '\n'


def write_if_changed(path, text):
    if os.path.exists(path) and open(path).read() == text:
        return False
    open(path, 'w').write(text)
    return True


def main(repo='/repo', out='/verif/coq/theories/Gen/WindowGen.v'):
    progs = translate(repo)
    write_if_changed(out, emit(progs))
    return dict(programs={n: p for n, p in progs})


if __name__ == '__main__':
    print(main(sys.argv[1] if len(sys.argv) > 1 else '/repo'))
