#!/usr/bin/env python3
"""tr_cache.py -- fail-closed translator of the cache registry facts:
   yastn/tensor/_control_lru.py + the modules it names  ->  coq/theories/Gen/CacheGen.v

Facts emitted (as Coq data, proved about in properties/C16.v by computation):
  decorated      : canonical names (defining_module.function) of every @lru_cache function in the controlled modules
  resized        : functions re-wrapped by set_cache_maxsize (resolved to their defining module)
  cleared        : functions cleared by clear_cache
  hidden_inputs  : for each decorated function, the free names of its body that are neither parameters, locals,
                   builtins nor module-level functions/classes/imports/immutable constants (must be empty:
                   a cached function may depend on its key only)
"""
import ast, os, sys, builtins, hashlib


class TranslateError(Exception):
    pass


def _fail(path, node, why):
    raise TranslateError("%s:%s: %s: %s" % (path, getattr(node, 'lineno', '?'), why,
                                           ast.dump(node)[:200] if isinstance(node, ast.AST) else node))


def is_lru_decorator(d):
    # @lru_cache(maxsize=...) or @lru_cache
    if isinstance(d, ast.Call):
        d = d.func
    return (isinstance(d, ast.Name) and d.id == 'lru_cache') or (isinstance(d, ast.Attribute) and d.attr == 'lru_cache')


IMMUTABLE_CALLS = {'tuple', 'frozenset', 'namedtuple', 'NamedTuple'}


def module_level(tree, path):
    """names bound at module level and whether the binding is immutable-safe"""
    safe, unsafe, imported_from = set(), set(), {}
    for st in tree.body:
        if isinstance(st, (ast.FunctionDef, ast.ClassDef, ast.AsyncFunctionDef)):
            safe.add(st.name)
        elif isinstance(st, ast.Import):
            for a in st.names:
                safe.add((a.asname or a.name).split('.')[0])
        elif isinstance(st, ast.ImportFrom):
            for a in st.names:
                safe.add(a.asname or a.name)
                imported_from[a.asname or a.name] = (st.module, st.level, a.name)
        elif isinstance(st, (ast.Assign, ast.AnnAssign)):
            tgts = st.targets if isinstance(st, ast.Assign) else [st.target]
            val = st.value
            ok = isinstance(val, ast.Constant) or \
                (isinstance(val, ast.Tuple) and all(isinstance(e, ast.Constant) for e in val.elts)) or \
                (isinstance(val, ast.Call) and isinstance(val.func, ast.Name) and val.func.id in IMMUTABLE_CALLS)
            for t in tgts:
                for n in ast.walk(t):
                    if isinstance(n, ast.Name):
                        (safe if ok else unsafe).add(n.id)
    return safe - unsafe, unsafe, imported_from


def bound_names(fn):
    """every name bound anywhere inside the function (params, assignments, loops, comprehensions, nested defs)"""
    b = set()
    for n in ast.walk(fn):
        if isinstance(n, ast.arguments):
            for a in n.posonlyargs + n.args + n.kwonlyargs:
                b.add(a.arg)
            if n.vararg:
                b.add(n.vararg.arg)
            if n.kwarg:
                b.add(n.kwarg.arg)
        elif isinstance(n, ast.Name) and isinstance(n.ctx, (ast.Store, ast.Del)):
            b.add(n.id)
        elif isinstance(n, (ast.FunctionDef, ast.ClassDef)) and n is not fn:
            b.add(n.name)
        elif isinstance(n, ast.ExceptHandler) and n.name:
            b.add(n.name)
        elif isinstance(n, (ast.Global, ast.Nonlocal)):
            _fail('?', n, "global/nonlocal in a cached function")
    return b


def analyse_module(repo, modname):
    path = os.path.join(repo, 'yastn', 'tensor', modname + '.py')
    src = open(path).read()
    tree = ast.parse(src)
    safe, unsafe, imported_from = module_level(tree, path)
    decorated = {}
    for st in tree.body:
        if isinstance(st, ast.FunctionDef) and any(is_lru_decorator(d) for d in st.decorator_list):
            if len(st.decorator_list) != 1:
                _fail(path, st, "cached function with several decorators")
            a = st.args
            if a.vararg or a.kwarg or a.kwonlyargs:
                _fail(path, st, "cached function with *args/**kwargs/keyword-only parameters")
            bound = bound_names(st)
            free = set()
            for n in ast.walk(st):
                if isinstance(n, ast.Name) and isinstance(n.ctx, ast.Load):
                    if n.id in bound or hasattr(builtins, n.id) or n.id in safe:
                        continue
                    free.add(n.id)
            decorated[st.name] = dict(params=[x.arg for x in a.posonlyargs + a.args], hidden=sorted(free), line=st.lineno)
    return dict(path=path, sha=hashlib.sha256(src.encode()).hexdigest(), decorated=decorated, imported_from=imported_from)


def resolve(mods, modname, fname):
    """defining module of modname.fname (following 'from ._x import f' once or twice)"""
    seen = 0
    while seen < 4:
        m = mods.get(modname)
        if m is None:
            return None
        if fname in m['decorated']:
            return modname + '.' + fname
        imp = m['imported_from'].get(fname)
        if not imp or imp[1] != 1 or imp[0] is None:
            return None
        modname, fname = imp[0], imp[2]
        seen += 1
    return None


def translate(repo):
    cpath = os.path.join(repo, 'yastn', 'tensor', '_control_lru.py')
    csrc = open(cpath).read()
    ctree = ast.parse(csrc)
    controlled = []
    funcs = {}
    for st in ctree.body:
        if isinstance(st, ast.ImportFrom) and st.level == 1 and st.module is None:
            controlled += [a.name for a in st.names]
        elif isinstance(st, ast.FunctionDef):
            funcs[st.name] = st
    if not controlled:
        raise TranslateError("_control_lru.py: no 'from . import <modules>' found")
    for need in ('set_cache_maxsize', 'clear_cache', 'get_cache_info'):
        if need not in funcs:
            raise TranslateError("_control_lru.py: function %s not found" % need)
    mods = {m: analyse_module(repo, m) for m in controlled}

    def body(fn):
        b = list(fn.body)
        if b and isinstance(b[0], ast.Expr) and isinstance(b[0].value, ast.Constant):
            b = b[1:]
        return b

    def mod_attr(n):
        if isinstance(n, ast.Attribute) and isinstance(n.value, ast.Name) and n.value.id in mods:
            return n.value.id, n.attr
        _fail(cpath, n, "expected <controlled module>.<function>")

    resized = []
    rebound = []
    for st in body(funcs['set_cache_maxsize']):
        # M.f = N.f  (a module that imported the cached function by name is pointed to the new object): only after N.f was re-wrapped
        if isinstance(st, ast.Assign) and len(st.targets) == 1 and isinstance(st.value, ast.Attribute) and isinstance(st.targets[0], ast.Attribute):
            tgt, src_ = mod_attr(st.targets[0]), mod_attr(st.value)
            if tgt[1] != src_[1] or src_ not in resized:
                _fail(cpath, st, "alias rebinding must copy an already re-wrapped function of the same name")
            if resolve(mods, tgt[0], tgt[1]) != resolve(mods, src_[0], src_[1]):
                _fail(cpath, st, "alias rebinding between different functions")
            rebound.append('%s.%s' % tgt)
            continue
        # M.f = lru_cache(maxsize)(M.f.__wrapped__)
        ok = isinstance(st, ast.Assign) and len(st.targets) == 1 and isinstance(st.value, ast.Call) \
            and isinstance(st.value.func, ast.Call) and isinstance(st.value.func.func, ast.Name) \
            and st.value.func.func.id == 'lru_cache' and len(st.value.func.args) == 1 \
            and isinstance(st.value.func.args[0], ast.Name) and st.value.func.args[0].id == 'maxsize' \
            and len(st.value.args) == 1 and isinstance(st.value.args[0], ast.Attribute) \
            and st.value.args[0].attr == '__wrapped__'
        if not ok:
            _fail(cpath, st, "unexpected statement in set_cache_maxsize")
        tgt = mod_attr(st.targets[0])
        src_ = mod_attr(st.value.args[0].value)
        if tgt != src_:
            _fail(cpath, st, "set_cache_maxsize re-wraps a different function than it assigns")
        if resolve(mods, tgt[0], tgt[1]) != '%s.%s' % tgt:
            _fail(cpath, st, "set_cache_maxsize re-wraps a name imported from another module: the defining module keeps the old cache object")
        resized.append(tgt)
    cleared = []
    for st in body(funcs['clear_cache']):
        ok = isinstance(st, ast.Expr) and isinstance(st.value, ast.Call) and isinstance(st.value.func, ast.Attribute) \
            and st.value.func.attr == 'cache_clear' and not st.value.args
        if not ok:
            _fail(cpath, st, "unexpected statement in clear_cache")
        cleared.append(mod_attr(st.value.func.value))
    info = []
    st = body(funcs['get_cache_info'])
    if len(st) != 1 or not isinstance(st[0], ast.Return) or not isinstance(st[0].value, ast.Dict):
        _fail(cpath, funcs['get_cache_info'], "get_cache_info must return a dict literal")
    for v in st[0].value.values:
        ok = isinstance(v, ast.Call) and isinstance(v.func, ast.Attribute) and v.func.attr == 'cache_info'
        if not ok:
            _fail(cpath, v, "unexpected value in get_cache_info")
        info.append(mod_attr(v.func.value))

    def canon_list(pairs, what):
        out = []
        for (m, f) in pairs:
            c = resolve(mods, m, f)
            out.append(c if c is not None else 'UNRESOLVED:%s.%s' % (m, f))
        return out
    decorated = sorted('%s.%s' % (m, f) for m in mods for f in mods[m]['decorated'])
    # second handles: 'from ._x import f' of a cached function, in ANY module of the package (such a name keeps the old cache object after a resize)
    aliases = []
    cached_names = {f: m for m in mods for f in mods[m]['decorated']}
    for root, _, files in os.walk(os.path.join(repo, 'yastn')):
        for fn_ in sorted(files):
            if not fn_.endswith('.py'):
                continue
            pth = os.path.join(root, fn_)
            try:
                tr_ = ast.parse(open(pth).read())
            except SyntaxError:
                continue
            for node in ast.walk(tr_):
                if isinstance(node, ast.ImportFrom) and node.module and node.module.split('.')[-1] in mods:
                    src_mod = node.module.split('.')[-1]
                    for a in node.names:
                        if a.name == '*':
                            if os.path.relpath(pth, repo) not in ('yastn/tensor/__init__.py', 'yastn/__init__.py'):
                                _fail(pth, node, "star import from a module with cached functions")
                            continue
                        if a.name in mods[src_mod]['decorated'] or resolve(mods, src_mod, a.name) is not None:
                            holder = os.path.splitext(fn_)[0]
                            if holder == src_mod:
                                continue
                            if os.path.relpath(root, os.path.join(repo, 'yastn')) != 'tensor':
                                _fail(pth, node, "cached function imported by name outside yastn/tensor (cannot be rebound by set_cache_maxsize)")
                            aliases.append('%s.%s' % (holder, a.asname or a.name))
    aliases = sorted(set(aliases))
    hidden = sorted(('%s.%s' % (m, f), mods[m]['decorated'][f]['hidden']) for m in mods for f in mods[m]['decorated'])
    params = sorted(('%s.%s' % (m, f), len(mods[m]['decorated'][f]['params'])) for m in mods for f in mods[m]['decorated'])
    shas = {os.path.relpath(mods[m]['path'], repo): mods[m]['sha'] for m in mods}
    shas[os.path.relpath(cpath, repo)] = hashlib.sha256(csrc.encode()).hexdigest()
    return dict(decorated=decorated, resized=canon_list(resized, 'resized'), cleared=canon_list(cleared, 'cleared'),
                info=canon_list(info, 'info'), hidden=hidden, params=params, shas=shas, controlled=controlled, aliases=aliases, rebound=sorted(set(rebound)),
                binding_sites=dict(resized=resized, cleared=cleared))


def emit(t):
    def strs(l):
        return '[' + '; '.join('"%s"' % x for x in l) + ']%string'
    o = ["(* CacheGen.v -- GENERATED by tools/translate/tr_cache.py from yastn/tensor/_control_lru.py and the modules it controls; do not edit. *)",
         "From Coq Require Import List String ZArith.", "Import ListNotations.", "Open Scope string_scope.", ""]
    o.append("Definition decorated : list string := %s." % strs(t['decorated']))
    o.append("Definition resized : list string := %s." % strs(t['resized']))
    o.append("Definition cleared : list string := %s." % strs(t['cleared']))
    o.append("Definition info : list string := %s." % strs(t['info']))
    o.append("Definition aliases : list string := %s." % strs(t['aliases']))
    o.append("Definition rebound : list string := %s." % strs(t['rebound']))
    o.append("Definition hidden_inputs : list (string * list string) := [%s]." %
             '; '.join('("%s", %s)' % (f, strs(h)) for f, h in t['hidden']))
    o.append("Definition arity : list (string * nat) := [%s]." % '; '.join('("%s", %d%%nat)' % (f, n) for f, n in t['params']))
    return '\n'.join(o) + '\n'


def write_if_changed(path, text):
    old = open(path).read() if os.path.exists(path) else None
    if old != text:
        os.makedirs(os.path.dirname(path), exist_ok=True)
        open(path, 'w').write(text)


def main(repo='/repo', out='/verif/coq/theories/Gen/CacheGen.v'):
    t = translate(repo)
    write_if_changed(out, emit(t))
    return t


if __name__ == '__main__':
    try:
        t = main(*(sys.argv[1:]))
        print("decorated:", len(t['decorated']), "resized:", len(t['resized']), "cleared:", len(t['cleared']))
        print("hidden:", [h for h in t['hidden'] if h[1]])
    except TranslateError as e:
        print("TRANSLATE-ERROR", e)
        sys.exit(2)
