"""pyexpr.py -- shared, fail-closed translation of small Python arithmetic expressions to Gallina over Q (or Z).

Supported (anything else raises TranslateError): names from an explicit environment, int/float literals (floats become exact decimal
rationals from their repr), unary minus, + - * /, abs, min/max (n-ary, also of a single list/tuple literal), int(...) (identity on
integral values: only accepted around ceil/floor/max/min of such), np.ceil / np.floor / math.ceil / math.floor, len(X) for X in the
environment (mapped to a length variable), conditional expressions with comparisons (<, <=, >, >=, ==, !=) joined by and/or/not.
"""
import ast
from fractions import Fraction
from decimal import Decimal


class TranslateError(Exception):
    pass


def fail(node, why, path='?'):
    raise TranslateError("%s:%s: %s: %s" % (path, getattr(node, 'lineno', '?'), why, ast.dump(node)[:200] if isinstance(node, ast.AST) else node))


def qlit(x):
    if isinstance(x, bool):
        raise TranslateError('boolean literal in arithmetic')
    fr = Fraction(Decimal(repr(x))) if isinstance(x, float) else Fraction(x)
    return '(Qmake (%d) %d)' % (fr.numerator, fr.denominator)


class QExpr:
    """translate to Q; env maps Python names to Coq identifiers (of type Q); lens maps sequence names to Coq identifiers holding their length (Q)"""

    def __init__(self, env, lens=None, path='?'):
        self.env, self.lens, self.path = env, lens or {}, path

    def tr(self, n):
        if isinstance(n, ast.Constant) and isinstance(n.value, (int, float)) and not isinstance(n.value, bool):
            return qlit(n.value)
        if isinstance(n, ast.Name):
            if n.id not in self.env:
                fail(n, 'name %r is not a variable of the modelled controller' % n.id, self.path)
            return self.env[n.id]
        if isinstance(n, ast.UnaryOp) and isinstance(n.op, ast.USub):
            return '(- %s)' % self.tr(n.operand)
        if isinstance(n, ast.BinOp):
            if isinstance(n.op, ast.FloorDiv):
                return '(inject_Z (Qfloor (%s / %s)))' % (self.tr(n.left), self.tr(n.right))
            op = {ast.Add: '+', ast.Sub: '-', ast.Mult: '*', ast.Div: '/'}.get(type(n.op))
            if op is None:
                fail(n, 'unsupported operator', self.path)
            return '(%s %s %s)' % (self.tr(n.left), op, self.tr(n.right))
        if isinstance(n, ast.Call):
            f = n.func
            name = f.id if isinstance(f, ast.Name) else (f.attr if isinstance(f, ast.Attribute) and isinstance(f.value, ast.Name) and f.value.id in ('np', 'numpy', 'math') else None)
            if n.keywords or name is None:
                fail(n, 'unsupported call', self.path)
            if name in ('min', 'max'):
                args = n.args
                if len(args) == 1 and isinstance(args[0], (ast.List, ast.Tuple)):
                    args = args[0].elts
                if len(args) < 2:
                    fail(n, 'min/max of fewer than two values', self.path)
                fn = 'Qmin' if name == 'min' else 'Qmax'
                out = self.tr(args[-1])
                for a in reversed(args[:-1]):
                    out = '(%s %s %s)' % (fn, self.tr(a), out)
                return out
            if name == 'abs' and len(n.args) == 1:
                return '(Qabs %s)' % self.tr(n.args[0])
            if name in ('ceil', 'floor') and len(n.args) == 1:
                return '(inject_Z (%s %s))' % ('Qceiling' if name == 'ceil' else 'Qfloor', self.tr(n.args[0]))
            if name == 'int' and len(n.args) == 1:
                return '(inject_Z (Qtrunc %s))' % self.tr(n.args[0])
            if name == 'len' and len(n.args) == 1 and isinstance(n.args[0], ast.Name) and n.args[0].id in self.lens:
                return self.lens[n.args[0].id]
            fail(n, 'unsupported call', self.path)
        if isinstance(n, ast.IfExp):
            return '(if %s then %s else %s)' % (self.cond(n.test), self.tr(n.body), self.tr(n.orelse))
        fail(n, 'unsupported expression', self.path)

    def cond(self, n):
        if isinstance(n, ast.Compare) and len(n.ops) == 1:
            a, b = self.tr(n.left), self.tr(n.comparators[0])
            op = type(n.ops[0])
            if op is ast.Lt:
                return '(Qltb %s %s)' % (a, b)
            if op is ast.LtE:
                return '(Qle_bool %s %s)' % (a, b)
            if op is ast.Gt:
                return '(Qltb %s %s)' % (b, a)
            if op is ast.GtE:
                return '(Qle_bool %s %s)' % (b, a)
            if op is ast.Eq:
                return '(Qeq_bool %s %s)' % (a, b)
            if op is ast.NotEq:
                return '(negb (Qeq_bool %s %s))' % (a, b)
        if isinstance(n, ast.BoolOp):
            j = ' && ' if isinstance(n.op, ast.And) else ' || '
            return '(' + j.join(self.cond(v) for v in n.values) + ')'
        if isinstance(n, ast.UnaryOp) and isinstance(n.op, ast.Not):
            return '(negb %s)' % self.cond(n.operand)
        if isinstance(n, ast.Name) and n.id in getattr(self, 'bools', {}):
            return self.bools[n.id]
        fail(n, 'unsupported condition', self.path)


QPRELUDE = """From Coq Require Import QArith Qround Qabs Qminmax Bool ZArith.
Open Scope Q_scope.
Definition Qltb (a b : Q) : bool := negb (Qle_bool b a).
Definition Qtrunc (a : Q) : Z := Qfloor a.   (* int(): only applied to non-negative values by the translated code; audited by the theorems' hypotheses *)
"""


def find_function(tree, name, path):
    for n in ast.walk(tree):
        if isinstance(n, ast.FunctionDef) and n.name == name:
            return n
    raise TranslateError('%s: function %s not found' % (path, name))


def assignments_to(fn, names):
    """every (stmt, target-name) in fn that binds one of names, incl. augmented and tuple assignments, for-targets and with-items"""
    out = []
    for n in ast.walk(fn):
        tg = []
        if isinstance(n, ast.Assign):
            tg = n.targets
        elif isinstance(n, (ast.AugAssign, ast.AnnAssign)):
            tg = [n.target]
        elif isinstance(n, (ast.For, ast.comprehension)):
            tg = [n.target]
        elif isinstance(n, ast.NamedExpr):
            tg = [n.target]
        for t in tg:
            for m in ast.walk(t):
                if isinstance(m, ast.Name) and m.id in names:
                    out.append((n, m.id))
    return out
