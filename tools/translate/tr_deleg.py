#!/usr/bin/env python3
"""tr_deleg.py -- fail-closed extraction of SAME-NAME DELEGATIONS:
   selected modules of yastn  ->  coq/theories/Gen/DelegGen.v

For every function F of the selected modules and every call inside F of a function G defined in the same modules (a module-level function called by
its name, or a method called on self/psi/env... whose name is unique among the selected modules), every parameter p of G that is ALSO a parameter of F
is a delegated option.  The fact emitted per (F, G, call site, p) is the expression G receives for p: the name p itself (positionally or p=p), another
expression, or nothing (G's default applies).  properties/*.v prove, by computation on this list, that every delegated option is passed on under its own
name, except for the pairs listed in ALLOW (each with the reason)."""
import ast, os, sys

FILES = ['yastn/tensor/linalg.py', 'yastn/tensor/_output.py', 'yastn/tn/mps/_tdvp.py', 'yastn/tn/mps/_dmrg.py', 'yastn/tn/mps/_mps_obc.py',
         'yastn/tn/mps/_compression.py', 'yastn/tn/mps/_env.py', 'yastn/tn/mps/_measure.py']
# (caller, callee, parameter): deliberate non-forwarding, with the reason
ALLOW = {
    # (caller, callee, option, what is passed): how many call sites may do this, and why
    ('_tdvp.tdvp_', '_mps_obc.MpsMpoOBC.canonize_', 'normalize', 'False'): (1, 'the initial canonisation keeps the norm in psi.factor whatever normalize says'),
    ('_tdvp.tdvp_', '_tdvp._tdvp_sweep_1site_', 'dt', 'dt0'): (1, 'a sweep receives the length of its sub-step (proved about in C10 on StepGen)'),
    ('_tdvp.tdvp_', '_tdvp._tdvp_sweep_2site_', 'dt', 'dt0'): (1, 'as above'),
    ('_tdvp.tdvp_', '_tdvp._tdvp_sweep_12site_', 'dt', 'dt0'): (1, 'as above'),
    ('_output.to_dict', '_output.to_dict', 'resolve_ops', 'False'): (1, 'the delegated call runs on the tensor whose transposition has just been consumed'),
    ('_output.to_dict', '_output.to_dict', 'resolve_ops', '<default>'): (1, 'inner call after the embedding into the meta'),
    ('_output.to_dict', '_output.to_dict', 'meta', '<default>'): (1, 'inner call after the embedding into the meta: the result is compared with the meta afterwards'),
    ('_compression._compression_', '_mps_obc.MpsMpoOBC.canonize_', 'normalize', '<default>'): (1, 'the initial guess is normalised; its norm is overwritten by the optimisation'),
    ('linalg.svd', '_output.get_shape', 'axes', '0'): (1, 'shape of one leg of the factor'),
    ('linalg.svd', '_output.get_shape', 'axes', '1'): (1, 'shape of one leg of the factor'),
}


class TranslateError(Exception):
    pass


def params(fn):
    a = fn.args
    names = [x.arg for x in a.posonlyargs + a.args + a.kwonlyargs]
    return [n for n in names if n not in ('self', 'cls')]


RECEIVERS = ('self', 'psi', 'env', 'bra', 'ket', 'a', 'b', 'phi')


def optional(fn):
    a = fn.args
    pos = a.posonlyargs + a.args
    return [x.arg for x in pos[len(pos) - len(a.defaults):]] + [x.arg for x, d in zip(a.kwonlyargs, a.kw_defaults) if d is not None]


def collect(repo):
    funcs = {}          # name -> list of (qualified name, FunctionDef, is_method)
    trees = {}
    for f in FILES:
        path = os.path.join(repo, f)
        tree = ast.parse(open(path).read())
        trees[f] = tree
        mod = os.path.splitext(os.path.basename(f))[0]
        for node in tree.body:
            if isinstance(node, ast.FunctionDef):
                funcs.setdefault(node.name, []).append((mod + '.' + node.name, node, False))
            elif isinstance(node, ast.ClassDef):
                for sub in node.body:
                    if isinstance(sub, ast.FunctionDef):
                        funcs.setdefault(sub.name, []).append((mod + '.' + node.name + '.' + sub.name, sub, True))
    return funcs, trees


def translate(repo):
    funcs, trees = collect(repo)
    facts = []
    for name, lst in sorted(funcs.items()):
        for qn, F, _ in lst:
            pF = set(params(F))
            for call in ast.walk(F):
                if not isinstance(call, ast.Call):
                    continue
                if isinstance(call.func, ast.Name):
                    gname, method = call.func.id, False
                elif isinstance(call.func, ast.Attribute):
                    gname, method = call.func.attr, True
                else:
                    continue
                cands = [c for c in funcs.get(gname, []) if c[2] == method or (method and not c[2])]
                if len(cands) != 1 or gname == F.name and cands[0][1] is F and not any(isinstance(k.value, ast.Constant) for k in call.keywords):
                    if len(cands) != 1:
                        continue        # not resolvable to one definition
                gq, G, g_is_method = cands[0]
                if any(isinstance(a, ast.Starred) for a in call.args) or any(k.arg is None for k in call.keywords):
                    continue            # *args / **kwargs at the call: forwarded wholesale
                pG = params(G)
                if method and not g_is_method:
                    pG = pG[1:]         # a module-level function used as a method: its first parameter is the receiver
                if method:
                    rtxt = ast.unparse(call.func.value)
                    root = call.func.value
                    while isinstance(root, (ast.Attribute, ast.Call, ast.Subscript)):
                        root = root.func if isinstance(root, ast.Call) else root.value
                    if not (isinstance(root, ast.Name) and root.id in RECEIVERS) or 'backend' in rtxt or 'config' in rtxt:
                        continue        # receiver is not one of the objects of these modules (e.g. a backend)
                defaults = set(optional(G))
                passed = {}
                for i, a in enumerate(call.args):
                    if i < len(pG):
                        passed[pG[i]] = a
                for k in call.keywords:
                    passed[k.arg] = k.value
                for p in pG:
                    if p in pF and p in defaults:       # options (parameters with a default in the callee) that the caller has under the same name
                        got = passed.get(p)
                        txt = '<default>' if got is None else ast.unparse(got)
                        facts.append((qn, gq, call.lineno, p, txt))
    return facts


def emit(facts):
    L = ['(* GENERATED by tools/translate/tr_deleg.py -- do not edit *)', 'From Coq Require Import List String.', 'Import ListNotations.', 'Open Scope string_scope.', '',
         '(* (caller, callee, option, what the callee receives for it) *)',
         'Definition delegations : list (string * string * string * string) := [']
    L.append(';\n'.join('  ("%s", "%s", "%s", "%s")' % (a, b, p, t.replace('"', "'")) for a, b, _, p, t in facts))
    L.append('].')
    L.append('Definition allowed : list ((string * string * string * string) * nat) := [%s].' %
             '; '.join('(("%s", "%s", "%s", "%s"), %d%%nat)' % (k + (ALLOW[k][0],)) for k in sorted(ALLOW)))
    return '\n'.join(L) + '\n'


def main(repo='/repo', out='/verif/coq/theories/Gen/DelegGen.v'):
    facts = translate(repo)
    text = emit(facts)
    if not (os.path.exists(out) and open(out).read() == text):
        open(out, 'w').write(text)
    return dict(n=len(facts), not_same=[f for f in facts if f[3] != f[4]])


if __name__ == '__main__':
    print(main(sys.argv[1] if len(sys.argv) > 1 else '/repo'))
