#!/usr/bin/env python3
"""verify_seeds.py [ids...] -- regression over /verif/seeded: every kept change must still apply to /repo's HEAD, and the property's quick check
must report a violation with it applied (and /repo is restored afterwards). Writes /verif/seeded/STATUS.json."""
import os, sys, json, subprocess
SE = '/verif/seeded'
ids = sys.argv[1:] or sorted(d for d in os.listdir(SE) if os.path.isdir(os.path.join(SE, d)))
assert subprocess.run('git -C /repo status --porcelain', shell=True, capture_output=True, text=True).stdout.strip() == '', '/repo dirty'
head = subprocess.run('git -C /repo log --format=%h -1', shell=True, capture_output=True, text=True).stdout.strip()
out = {}
for i in ids:
    d = os.path.join(SE, i)
    meta = json.load(open(os.path.join(d, 'meta.json')))
    prop = meta['property']
    chk = subprocess.run('git -C /repo apply --check %s/patch.diff' % d, shell=True, capture_output=True, text=True)
    if chk.returncode != 0:
        out[i] = dict(applies=False, detected=None, note=chk.stderr.strip()[:200])
        print(i, 'DOES NOT APPLY', flush=True)
        continue
    subprocess.run('git -C /repo apply %s/patch.diff' % d, shell=True, check=True)
    try:
        p = subprocess.run('cd /verif && timeout 3000 ./check %s --tier quick' % prop, shell=True, capture_output=True, text=True)
    finally:
        subprocess.run('git -C /repo checkout -- .', shell=True, check=True)
    det = p.returncode == 1 and ('VIOLATION property=%s' % prop) in p.stdout
    lines = [l for l in p.stdout.splitlines() if l.startswith(('VIOLATION', '  - '))][:2]
    out[i] = dict(applies=True, detected=det, exit_code=p.returncode, head=lines)
    meta['check'] = dict(cmd='./check %s --tier quick' % prop, exit_code=p.returncode, detected=det, output_head=lines, repo_head=head)
    json.dump(meta, open(os.path.join(d, 'meta.json'), 'w'), indent=1)
    print(i, 'detected' if det else 'MISSED', lines[-1][:160] if lines else '', flush=True)
old = json.load(open(os.path.join(SE, 'STATUS.json'))) if os.path.exists(os.path.join(SE, 'STATUS.json')) else {}
old.update(out)
json.dump(dict(sorted(old.items())), open(os.path.join(SE, 'STATUS.json'), 'w'), indent=1)
