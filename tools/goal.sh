#!/bin/bash
# usage: goal.sh <file.v> <line>   -- show the proof state just before <line> (dev helper)
f=$1; n=$2; d=$(dirname $f); b=$(basename $f .v)
tmp=$d/Tmp_goal_$$.v
head -n $((n-1)) $f > $tmp; echo "Show." >> $tmp
cd /verif/coq && timeout 120 coqc -Q theories Yv -Q properties YvP $tmp 2>&1 | grep -v -e Warning -e deprecated | head -${3:-60}
rm -f $d/Tmp_goal_$$.* $d/.Tmp_goal_$$.*
