#!/bin/bash
# builds the whole framework from files on disk (offline): translators -> Coq (full .vo build) -> extraction -> OCaml driver
set -e
cd /verif
export PYTHONPATH=/repo:/verif/tools PYTHONDONTWRITEBYTECODE=1
for t in tools/translate/tr_*.py; do /venv/bin/python $t /repo || echo "translator $t refused the source (checks will report it)"; done
cd /verif/coq
coq_makefile -f _CoqProject -o Makefile
timeout 3000 make -k -j16 || echo "coq build incomplete (checks will report broken obligations)"
cd /verif/ocaml
coqc -Q ../coq/theories Yv ../coq/extraction/Extract.v
rm -f ../coq/extraction/*.vo ../coq/extraction/*.glob ../coq/extraction/.*.aux
ocamlfind ocamlopt -w -a model.mli model.ml driver.ml -o model_driver
echo setup done
