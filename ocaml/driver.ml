(* driver.ml -- reads one s-expression per line: (OP ARG); prints Model.run_case's result.
   Atoms are decimal integers (|x| < 2^62, via OCaml int) or, for big integers, [-]x<hex digits> which are converted to / from the
   extracted binary positive bit by bit (no arithmetic outside the model).  Z stays the extracted datatype. *)
module S = Stdlib.String
type ostring = Stdlib.String.t
open Model

let rec pos_of_int n = if n = 1 then XH else if n land 1 = 0 then XO (pos_of_int (n lsr 1)) else XI (pos_of_int (n lsr 1))
let z_of_int n = if n = 0 then Z0 else if n > 0 then Zpos (pos_of_int n) else Zneg (pos_of_int (-n))
let rec int_of_pos = function XH -> 1 | XO p -> 2 * int_of_pos p | XI p -> 2 * int_of_pos p + 1
let int_of_z = function Z0 -> 0 | Zpos p -> int_of_pos p | Zneg p -> - (int_of_pos p)

(* hex <-> positive, most significant digit first *)
let pos_of_hex (h : ostring) : positive option =
  let acc = ref None in
  S.iter (fun c ->
    let d = if c >= '0' && c <= '9' then Char.code c - 48 else if c >= 'a' && c <= 'f' then Char.code c - 87 else failwith "hex" in
    for b = 3 downto 0 do
      let bit = (d lsr b) land 1 in
      acc := (match !acc with None -> if bit = 1 then Some XH else None | Some p -> Some (if bit = 1 then XI p else XO p))
    done) h;
  !acc
let z_of_atom (a : ostring) : z =
  let neg = S.length a > 0 && a.[0] = '-' in
  let b = if neg then S.sub a 1 (S.length a - 1) else a in
  if S.length b > 0 && b.[0] = 'x' then
    (match pos_of_hex (S.sub b 1 (S.length b - 1)) with None -> Z0 | Some p -> if neg then Zneg p else Zpos p)
  else z_of_int (int_of_string a)
let rec pos_bits = function XH -> [1] | XO p -> 0 :: pos_bits p | XI p -> 1 :: pos_bits p   (* least significant first *)
let hex_of_pos (p : positive) : ostring =
  let bits = Array.of_list (pos_bits p) in
  let n = Array.length bits in
  let nd = (n + 3) / 4 in
  let buf = Buffer.create (nd + 1) in
  for k = nd - 1 downto 0 do
    let d = ref 0 in
    for b = 3 downto 0 do let i = 4 * k + b in d := 2 * !d + (if i < n then bits.(i) else 0) done;
    Buffer.add_char buf "0123456789abcdef".[!d]
  done;
  Buffer.contents buf
let rec pos_len = function XH -> 1 | XO p -> 1 + pos_len p | XI p -> 1 + pos_len p
let string_of_z = function
  | Z0 -> "0"
  | Zpos p -> if pos_len p <= 61 then string_of_int (int_of_pos p) else "x" ^ hex_of_pos p
  | Zneg p -> if pos_len p <= 61 then string_of_int (- (int_of_pos p)) else "-x" ^ hex_of_pos p

let parse (s : ostring) : sx =
  let n = S.length s in
  let i = ref 0 in
  let rec skip () = if !i < n && (s.[!i] = ' ' || s.[!i] = '\t' || s.[!i] = '\r') then (incr i; skip ()) in
  let rec item () : sx =
    skip ();
    if !i >= n then failwith "eof"
    else if s.[!i] = '(' then begin
      incr i;
      let acc = ref [] in
      let rec loop () =
        skip ();
        if !i >= n then failwith "unclosed"
        else if s.[!i] = ')' then incr i
        else (acc := item () :: !acc; loop ()) in
      loop (); L (List.rev !acc)
    end else begin
      let j = !i in
      while !i < n && s.[!i] <> ' ' && s.[!i] <> ')' && s.[!i] <> '(' do incr i done;
      A (z_of_atom (S.sub s j (!i - j)))
    end in
  item ()

let rec print buf = function
  | A z -> Buffer.add_string buf (string_of_z z)
  | L l -> Buffer.add_char buf '(';
           List.iteri (fun k x -> if k > 0 then Buffer.add_char buf ' '; print buf x) l;
           Buffer.add_char buf ')'

let () =
  let buf = Buffer.create 65536 in
  (try
    while true do
      let line = input_line stdin in
      if S.length line > 0 then begin
        Buffer.clear buf;
        (try print buf (run_case (parse line))
         with Stack_overflow -> Buffer.add_string buf "(-2 0)"
            | Failure m -> Buffer.add_string buf ("(-3 0)"); prerr_endline m);
        print_string (Buffer.contents buf); print_newline ()
      end
    done
  with End_of_file -> ())
