(* driver.ml -- reads one s-expression per line: (OP ARG); prints Model.run_case's result.
   Atoms are decimal integers.  Z stays the extracted datatype; conversion via OCaml int
   (63-bit; the harness only sends |x| < 2^53). *)
open Model

let rec pos_of_int n = if n = 1 then XH else if n land 1 = 0 then XO (pos_of_int (n lsr 1)) else XI (pos_of_int (n lsr 1))
let z_of_int n = if n = 0 then Z0 else if n > 0 then Zpos (pos_of_int n) else Zneg (pos_of_int (-n))
let rec int_of_pos = function XH -> 1 | XO p -> 2 * int_of_pos p | XI p -> 2 * int_of_pos p + 1
let int_of_z = function Z0 -> 0 | Zpos p -> int_of_pos p | Zneg p -> - (int_of_pos p)

let parse (s : string) : sx =
  let n = String.length s in
  let i = ref 0 in
  let rec skip () = if !i < n && (s.[!i] = ' ' || s.[!i] = '\t' || s.[!i] = '\r') then (incr i; skip ()) in
  let rec item () : sx =
    skip ();
    if !i >= n then failwith "eof"
    else if s.[!i] = '(' then begin
      incr i;
      let acc = ref [] in
      let rec loop () =
        skip ();
        if !i >= n then failwith "unclosed"
        else if s.[!i] = ')' then incr i
        else (acc := item () :: !acc; loop ()) in
      loop (); L (List.rev !acc)
    end else begin
      let j = !i in
      while !i < n && s.[!i] <> ' ' && s.[!i] <> ')' && s.[!i] <> '(' do incr i done;
      A (z_of_int (int_of_string (String.sub s j (!i - j))))
    end in
  item ()

let rec print buf = function
  | A z -> Buffer.add_string buf (string_of_int (int_of_z z))
  | L l -> Buffer.add_char buf '(';
           List.iteri (fun k x -> if k > 0 then Buffer.add_char buf ' '; print buf x) l;
           Buffer.add_char buf ')'

let () =
  let buf = Buffer.create 65536 in
  (try
    while true do
      let line = input_line stdin in
      if String.length line > 0 then begin
        Buffer.clear buf;
        (try print buf (run_case (parse line))
         with Stack_overflow -> Buffer.add_string buf "(-2 0)"
            | Failure m -> Buffer.add_string buf ("(-3 0)"); prerr_endline m);
        print_string (Buffer.contents buf); print_newline ()
      end
    done
  with End_of_file -> ())
